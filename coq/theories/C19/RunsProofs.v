(* C19 — maximal-run grouping (Model.runs): the segments are in order, disjoint, never
   mergeable, and expanding them gives back exactly the per-position labels. *)
From Coq Require Import List ZArith Bool Lia.
From TskVerif Require Import Base.Common C19.Model.
Import ListNotations.
Open Scope Z_scope.

Section RunsProofs.
  Context {A : Type}.
  Variable eqb : A -> A -> bool.

  (* the label a list of segments assigns to a position (first segment containing it) *)
  Fixpoint lookup (x : Z) (rs : list (Z * Z * A)) : option A :=
    match rs with
    | [] => None
    | (l, r, a) :: t => if (l <=? x) && (x <? r) then Some a else lookup x t
    end.

  (* in order, non-empty, pairwise disjoint, inside [lo, hi) *)
  Fixpoint ordered (lo hi : Z) (rs : list (Z * Z * A)) : Prop :=
    match rs with
    | [] => lo <= hi
    | (l, r, _) :: t => lo <= l /\ l < r /\ ordered r hi t
    end.

  (* two consecutive segments that abut carry different labels *)
  Fixpoint no_merge (rs : list (Z * Z * A)) : Prop :=
    match rs with
    | (_, r1, a1) :: t =>
        match t with
        | (l2, _, a2) :: _ => (r1 = l2 -> eqb a1 a2 = false) /\ no_merge t
        | [] => True
        end
    | [] => True
    end.

  Lemma ordered_weaken lo lo' hi rs : ordered lo hi rs -> lo' <= lo -> ordered lo' hi rs.
  Proof.
    destruct rs as [|[[l r] a] t]; simpl; intros H Hl; [lia|].
    destruct H as (H1 & H2 & H3). repeat split; try lia; assumption.
  Qed.

  Lemma ordered_le lo hi rs : ordered lo hi rs -> lo <= hi.
  Proof.
    revert lo; induction rs as [|[[l r] a] t IH]; simpl; intros lo H; [assumption|].
    destruct H as (H1 & H2 & H3). apply IH in H3. lia.
  Qed.

  Lemma lookup_below lo hi rs x : ordered lo hi rs -> x < lo -> lookup x rs = None.
  Proof.
    revert lo; induction rs as [|[[l r] a] t IH]; simpl; intros lo H Hx; [reflexivity|].
    destruct H as (H1 & H2 & H3).
    replace (l <=? x) with false by (symmetry; apply Z.leb_gt; lia). simpl.
    apply (IH r); [assumption | lia].
  Qed.

  Lemma lookup_in_bounds lo hi rs x a : ordered lo hi rs -> lookup x rs = Some a -> lo <= x < hi.
  Proof.
    revert lo; induction rs as [|[[l r] b] t IH]; simpl; intros lo H L; [discriminate|].
    destruct H as (H1 & H2 & H3).
    destruct ((l <=? x) && (x <? r)) eqn:E.
    - apply andb_true_iff in E as [E1 E2]. apply Z.leb_le in E1. apply Z.ltb_lt in E2.
      apply ordered_le in H3. lia.
    - apply IH with (lo := r) in L; [lia | assumption].
  Qed.

  Definition cur_start (cur : option (Z * A)) (pos : Z) : Z :=
    match cur with Some (st, _) => st | None => pos end.
  Definition cur_label (cur : option (Z * A)) : option A :=
    match cur with Some (_, a) => Some a | None => None end.
  Definition cur_ok (cur : option (Z * A)) (pos : Z) : Prop :=
    match cur with Some (st, _) => st < pos | None => True end.

  Hypothesis eqb_eq : forall a b, eqb a b = true -> a = b.

  Lemma runs_from_spec :
    forall (l : list (option A)) cur pos, cur_ok cur pos ->
      let rs := runs_from eqb cur pos l in
      ordered (cur_start cur pos) (pos + zlen l) rs /\
      (forall x, cur_start cur pos <= x < pos -> lookup x rs = cur_label cur) /\
      (forall i, (i < length l)%nat -> lookup (pos + Z.of_nat i) rs = nth i l None).
  Proof.
    induction l as [|o t IH]; intros cur pos Hok; cbn zeta.
    - unfold zlen; simpl. destruct cur as [[st a]|]; simpl in *.
      + split; [lia|]. split.
        * intros x Hx. replace (st <=? x) with true by (symmetry; apply Z.leb_le; lia).
          replace (x <? pos) with true by (symmetry; apply Z.ltb_lt; lia). reflexivity.
        * intros i Hi; lia.
      + split; [lia|]. split; [intros x Hx; lia | intros i Hi; lia].
    - assert (Hlen : pos + zlen (o :: t) = (pos + 1) + zlen t) by (unfold zlen; simpl length; lia).
      rewrite Hlen.
      destruct cur as [[st a]|], o as [b|]; simpl runs_from; simpl cur_start; simpl cur_label.
      + (* open run, next position labelled b *)
        destruct (eqb a b) eqn:E.
        * apply eqb_eq in E. subst b.
          destruct (IH (Some (st, a)) (pos + 1)) as (O & Lc & Ln); [simpl in *; lia|].
          simpl in O, Lc. repeat split.
          -- exact O.
          -- intros x Hx. apply Lc. lia.
          -- intros [|i] Hi; simpl nth.
             ++ replace (pos + Z.of_nat 0) with pos by lia. apply Lc. simpl in Hok. lia.
             ++ replace (pos + Z.of_nat (S i)) with (pos + 1 + Z.of_nat i) by lia.
                apply Ln. simpl in Hi. lia.
        * destruct (IH (Some (pos, b)) (pos + 1)) as (O & Lc & Ln); [simpl; lia|].
          simpl in O, Lc. simpl in Hok. repeat split; simpl; try lia.
          -- exact O.
          -- intros x Hx. replace (st <=? x) with true by (symmetry; apply Z.leb_le; lia).
             replace (x <? pos) with true by (symmetry; apply Z.ltb_lt; lia). reflexivity.
          -- intros [|i] Hi; simpl nth.
             ++ replace (pos + Z.of_nat 0) with pos by lia.
                replace (pos <? pos) with false by (symmetry; apply Z.ltb_ge; lia).
                rewrite andb_false_r. apply Lc. lia.
             ++ replace (pos + Z.of_nat (S i)) with (pos + 1 + Z.of_nat i) by lia.
                replace (pos + 1 + Z.of_nat i <? pos) with false by (symmetry; apply Z.ltb_ge; lia).
                rewrite andb_false_r. apply Ln. simpl in Hi. lia.
      + (* open run, gap *)
        destruct (IH None (pos + 1)) as (O & Lc & Ln); [exact I|].
        simpl in O, Lc. simpl in Hok. repeat split; simpl; try lia.
        * apply ordered_weaken with (lo := pos + 1); [exact O | lia].
        * intros x Hx. replace (st <=? x) with true by (symmetry; apply Z.leb_le; lia).
          replace (x <? pos) with true by (symmetry; apply Z.ltb_lt; lia). reflexivity.
        * intros [|i] Hi; simpl nth.
          -- replace (pos + Z.of_nat 0) with pos by lia.
             replace (pos <? pos) with false by (symmetry; apply Z.ltb_ge; lia).
             rewrite andb_false_r. apply lookup_below with (lo := pos + 1) (hi := pos + 1 + zlen t); [exact O | lia].
          -- replace (pos + Z.of_nat (S i)) with (pos + 1 + Z.of_nat i) by lia.
             replace (pos + 1 + Z.of_nat i <? pos) with false by (symmetry; apply Z.ltb_ge; lia).
             rewrite andb_false_r. apply Ln. simpl in Hi. lia.
      + (* no open run, next position labelled b *)
        destruct (IH (Some (pos, b)) (pos + 1)) as (O & Lc & Ln); [simpl; lia|].
        simpl in O, Lc. repeat split.
        * exact O.
        * intros x Hx; lia.
        * intros [|i] Hi; simpl nth.
          -- replace (pos + Z.of_nat 0) with pos by lia. apply Lc. lia.
          -- replace (pos + Z.of_nat (S i)) with (pos + 1 + Z.of_nat i) by lia.
             apply Ln. simpl in Hi. lia.
      + (* no open run, gap *)
        destruct (IH None (pos + 1)) as (O & Lc & Ln); [exact I|].
        simpl in O. repeat split.
        * apply ordered_weaken with (lo := pos + 1); [exact O | lia].
        * intros x Hx; lia.
        * intros [|i] Hi; simpl nth.
          -- replace (pos + Z.of_nat 0) with pos by lia.
             apply lookup_below with (lo := pos + 1) (hi := pos + 1 + zlen t); [exact O | lia].
          -- replace (pos + Z.of_nat (S i)) with (pos + 1 + Z.of_nat i) by lia.
             apply Ln. simpl in Hi. lia.
  Qed.

  (* (a) the segments partition exactly the labelled positions *)
  Theorem runs_partition_lemma :
    forall (start : Z) (l : list (option A)),
      let rs := runs eqb start l in
      ordered start (start + zlen l) rs /\
      map (fun x => lookup x rs) (zrange start (length l)) = l.
  Proof.
    intros start l rs.
    destruct (runs_from_spec l None start I) as (O & _ & Ln). simpl in O. split; [exact O|].
    fold (runs eqb start l) in Ln. fold rs in Ln.
    assert (G : forall (k : list (option A)) s,
               (forall i, (i < length k)%nat -> lookup (s + Z.of_nat i) rs = nth i k None) ->
               map (fun x => lookup x rs) (zrange s (length k)) = k).
    { induction k as [|o k IHk]; intros s H; simpl; [reflexivity|]. f_equal.
      - specialize (H 0%nat). simpl in H. replace (s + 0) with s in H by lia. apply H. lia.
      - apply IHk. intros i Hi. specialize (H (S i)). simpl nth in H.
        replace (s + 1 + Z.of_nat i) with (s + Z.of_nat (S i)) by lia. apply H. simpl. lia. }
    apply G. exact Ln.
  Qed.

  (* the head of the result when a run is open: it starts where the open run started *)
  Lemma runs_from_head_open :
    forall (l : list (option A)) st a pos,
      exists r rest, runs_from eqb (Some (st, a)) pos l = (st, r, a) :: rest.
  Proof.
    induction l as [|o t IH]; intros st a pos; simpl.
    - eauto.
    - destruct o as [b|]; [destruct (eqb a b)|]; eauto.
  Qed.

  Lemma runs_from_no_merge :
    forall (l : list (option A)) cur pos, cur_ok cur pos -> no_merge (runs_from eqb cur pos l).
  Proof.
    induction l as [|o t IH]; intros cur pos Hok.
    - destruct cur as [[st a]|]; simpl; exact I.
    - destruct cur as [[st a]|], o as [b|]; simpl runs_from.
      + destruct (eqb a b) eqn:E.
        * apply IH. simpl in *. lia.
        * destruct (runs_from_head_open t pos b (pos + 1)) as (r & rest & Hh).
          pose proof (IH (Some (pos, b)) (pos + 1)) as N. rewrite Hh in *.
          split; [intros _; exact E | apply N; simpl; lia].
      + pose proof (IH None (pos + 1) I) as N.
        destruct (runs_from_spec t None (pos + 1) I) as (O & _ & _). simpl in O.
        destruct (runs_from eqb None (pos + 1) t) as [|[[l2 r2] a2] rest]; [exact I|].
        split; [|exact N]. simpl in O. intros Heq. lia.
      + apply IH. simpl. lia.
      + apply IH. exact I.
  Qed.

  (* (b) no two consecutive segments could be merged *)
  Theorem runs_maximal_lemma :
    forall (start : Z) (l : list (option A)), no_merge (runs eqb start l).
  Proof. intros. apply runs_from_no_merge. exact I. Qed.


  (* ---- uniqueness: the maximal runs are the ONLY in-order, disjoint, unmergeable list of
     segments with the given expansion ------------------------------------------------- *)
  Hypothesis eqb_refl : forall a, eqb a a = true.

  Lemma lookup_head l r a t x : l <= x < r -> lookup x ((l, r, a) :: t) = Some a.
  Proof.
    intros H. simpl. replace (l <=? x) with true by (symmetry; apply Z.leb_le; lia).
    replace (x <? r) with true by (symmetry; apply Z.ltb_lt; lia). reflexivity.
  Qed.

  Lemma lookup_skip l r a t x : r <= x -> lookup x ((l, r, a) :: t) = lookup x t.
  Proof.
    intros H. simpl. replace (x <? r) with false by (symmetry; apply Z.ltb_ge; lia).
    rewrite andb_false_r. reflexivity.
  Qed.

  Lemma no_merge_tail s t : no_merge (s :: t) -> no_merge t.
  Proof. destruct s as [[l r] a]. destruct t as [|[[l2 r2] a2] t']; simpl; tauto. Qed.

  (* the right end of the head is determined by the expansion *)
  Lemma head_right_le lo hi l r1 r2 a t1 t2 :
    ordered lo hi ((l, r1, a) :: t1) -> ordered lo hi ((l, r2, a) :: t2) ->
    no_merge ((l, r1, a) :: t1) ->
    (forall x, lo <= x < hi -> lookup x ((l, r1, a) :: t1) = lookup x ((l, r2, a) :: t2)) ->
    r2 <= r1.
  Proof.
    intros O1 O2 N1 E. destruct (Z_le_gt_dec r2 r1) as [|G]; [assumption|]. exfalso.
    simpl in O1, O2. destruct O1 as (A1 & B1 & C1), O2 as (A2 & B2 & C2).
    pose proof (ordered_le _ _ _ C2) as Hhi.
    specialize (E r1 ltac:(lia)).
    rewrite lookup_skip in E by lia. rewrite lookup_head in E by lia.
    destruct t1 as [|[[l' r'] a'] t1']; [discriminate|].
    simpl in C1. destruct C1 as (A' & B' & C').
    destruct (Z.eq_dec l' r1) as [->|Hne].
    - rewrite lookup_head in E by lia. inversion E; subst a'.
      simpl in N1. destruct N1 as [N1 _]. rewrite eqb_refl in N1. specialize (N1 eq_refl). discriminate.
    - rewrite (lookup_below l' hi) in E; [discriminate | | lia].
      simpl. repeat split; try lia. exact C'.
  Qed.

  Lemma runs_unique_aux : forall s1 s2 lo hi,
    ordered lo hi s1 -> ordered lo hi s2 -> no_merge s1 -> no_merge s2 ->
    (forall x, lo <= x < hi -> lookup x s1 = lookup x s2) -> s1 = s2.
  Proof.
    induction s1 as [|[[l1 r1] a1] t1 IH]; intros s2 lo hi O1 O2 N1 N2 E.
    - destruct s2 as [|[[l2 r2] a2] t2]; [reflexivity|]. exfalso.
      simpl in O2. destruct O2 as (Ha & Hb & Hc). pose proof (ordered_le _ _ _ Hc).
      specialize (E l2 ltac:(lia)). rewrite lookup_head in E by lia. discriminate.
    - destruct s2 as [|[[l2 r2] a2] t2].
      + exfalso. simpl in O1. destruct O1 as (Ha & Hb & Hc). pose proof (ordered_le _ _ _ Hc).
        specialize (E l1 ltac:(lia)). rewrite lookup_head in E by lia. discriminate.
      + pose proof O1 as O1'. pose proof O2 as O2'.
        simpl in O1, O2. destruct O1 as (A1 & B1 & C1), O2 as (A2 & B2 & C2).
        pose proof (ordered_le _ _ _ C1) as H1. pose proof (ordered_le _ _ _ C2) as H2.
        assert (l1 = l2).
        { destruct (Z.lt_trichotomy l1 l2) as [L|[L|L]]; [|assumption|]; exfalso.
          - specialize (E l1 ltac:(lia)). rewrite lookup_head in E by lia.
            rewrite (lookup_below l2 hi) in E; [discriminate| |lia]. simpl. repeat split; try lia. exact C2.
          - specialize (E l2 ltac:(lia)). rewrite (lookup_head l2) in E by lia.
            rewrite (lookup_below l1 hi) in E; [discriminate| |lia]. simpl. repeat split; try lia. exact C1. }
        subst l2.
        assert (a1 = a2).
        { specialize (E l1 ltac:(lia)). rewrite !lookup_head in E by lia. congruence. }
        subst a2.
        assert (r1 = r2).
        { pose proof (head_right_le lo hi l1 r1 r2 a1 t1 t2 O1' O2' N1 E).
          pose proof (head_right_le lo hi l1 r2 r1 a1 t2 t1 O2' O1' N2 ltac:(intros; symmetry; apply E; assumption)).
          lia. }
        subst r2. f_equal.
        apply (IH t2 r1 hi C1 C2 (no_merge_tail _ _ N1) (no_merge_tail _ _ N2)).
        intros x Hx. specialize (E x ltac:(lia)). rewrite !lookup_skip in E by lia. exact E.
  Qed.

  Theorem runs_unique_lemma :
    forall (start : Z) (l : list (option A)) (segs : list (Z * Z * A)),
      ordered start (start + zlen l) segs -> no_merge segs ->
      map (fun x => lookup x segs) (zrange start (length l)) = l ->
      segs = runs eqb start l.
  Proof.
    intros start l segs O N E.
    destruct (runs_partition_lemma start l) as [O' E'].
    apply (runs_unique_aux segs (runs eqb start l) start (start + zlen l) O O' N (runs_maximal_lemma start l)).
    intros x Hx.
    assert (G : forall (f g : Z -> option A) n s,
               map f (zrange s n) = map g (zrange s n) ->
               forall x, s <= x < s + Z.of_nat n -> f x = g x).
    { induction n as [|n IHn]; intros s H y Hy; [lia|]. simpl in H. inversion H as [[H0 H1]].
      destruct (Z.eq_dec y s) as [->|]; [assumption|]. apply (IHn (s + 1) H1). lia. }
    apply (G (fun x => lookup x segs) (fun x => lookup x (runs eqb start l)) (length l) start);
      [rewrite E, E'; reflexivity | unfold zlen in Hx; lia].
  Qed.


  (* ---- structure of an ordered, unmergeable segment list (used for the refinement) ------- *)

  Lemma ordered_in lo hi rs l r a : ordered lo hi rs -> In (l, r, a) rs -> lo <= l /\ l < r /\ r <= hi.
  Proof.
    revert lo; induction rs as [|[[l1 r1] a1] t IH]; intros lo O H; [contradiction|].
    simpl in O. destruct O as (A1 & A2 & A3). destruct H as [H|H].
    - inversion H; subst. pose proof (ordered_le _ _ _ A3). lia.
    - destruct (IH r1 A3 H) as (B1 & B2 & B3). lia.
  Qed.

  Lemma lookup_in x rs a : lookup x rs = Some a -> exists l r, In (l, r, a) rs /\ l <= x < r.
  Proof.
    induction rs as [|[[l1 r1] a1] t IH]; simpl; intros H; [discriminate|].
    destruct ((l1 <=? x) && (x <? r1)) eqn:E.
    - inversion H; subst. apply andb_true_iff in E as [E1 E2]. apply Z.leb_le in E1. apply Z.ltb_lt in E2.
      exists l1, r1. split; [left; reflexivity | lia].
    - destruct (IH H) as (l & r & Hin & Hx). exists l, r. split; [right; exact Hin | exact Hx].
  Qed.

  Lemma in_lookup lo hi rs l r a x : ordered lo hi rs -> In (l, r, a) rs -> l <= x < r -> lookup x rs = Some a.
  Proof.
    revert lo; induction rs as [|[[l1 r1] a1] t IH]; intros lo O H Hx; [contradiction|].
    simpl in O. destruct O as (A1 & A2 & A3). destruct H as [H|H].
    - inversion H; subst. apply lookup_head. exact Hx.
    - destruct (ordered_in _ _ _ _ _ _ A3 H) as (B1 & _). rewrite lookup_skip by lia. eapply IH; eauto.
  Qed.

  (* a segment extends over the next position if that position carries the same label *)
  Lemma run_ext_right : forall rs lo hi l r a x,
    ordered lo hi rs -> no_merge rs -> In (l, r, a) rs -> l <= x < r ->
    lookup (x + 1) rs = Some a -> x + 1 < r.
  Proof.
    induction rs as [|[[l1 r1] a1] t IH]; intros lo hi l r a x O N H Hx Lk; [contradiction|].
    pose proof O as O'. simpl in O. destruct O as (A1 & A2 & A3). destruct H as [H|H].
    - inversion H; subst l1 r1 a1; clear H.
      destruct (Z_lt_ge_dec (x + 1) r) as [|G]; [assumption|]. exfalso.
      assert (r = x + 1) by lia. subst r.
      rewrite lookup_skip in Lk by lia.
      destruct t as [|[[l2 r2] a2] t']; [discriminate|].
      simpl in A3. destruct A3 as (B1 & B2 & B3).
      destruct (Z.eq_dec l2 (x + 1)) as [->|Hne].
      + rewrite lookup_head in Lk by lia. inversion Lk; subst a2.
        simpl in N. destruct N as [N _]. rewrite eqb_refl in N. specialize (N eq_refl). discriminate.
      + rewrite (lookup_below l2 hi) in Lk; [discriminate | | lia]. simpl. repeat split; try lia. exact B3.
    - destruct (ordered_in _ _ _ _ _ _ A3 H) as (B1 & _).
      rewrite lookup_skip in Lk by lia.
      exact (IH r1 hi l r a x A3 (no_merge_tail _ _ N) H Hx Lk).
  Qed.

  Lemma run_ext_left : forall rs lo hi l r a x,
    ordered lo hi rs -> no_merge rs -> In (l, r, a) rs -> l <= x < r ->
    lookup (x - 1) rs = Some a -> l <= x - 1.
  Proof.
    induction rs as [|[[l1 r1] a1] t IH]; intros lo hi l r a x O N H Hx Lk; [contradiction|].
    pose proof O as O'. simpl in O. destruct O as (A1 & A2 & A3). destruct H as [H|H].
    - inversion H; subst l1 r1 a1; clear H.
      destruct (Z_le_gt_dec l (x - 1)) as [|G]; [assumption|]. exfalso.
      assert (l = x) by lia. subst l.
      rewrite (lookup_below x hi) in Lk; [discriminate | simpl; repeat split; try lia; exact A3 | lia].
    - destruct (ordered_in _ _ _ _ _ _ A3 H) as (B1 & B2 & B3).
      destruct (Z_le_gt_dec r1 (x - 1)) as [L|G].
      + rewrite lookup_skip in Lk by lia.
        exact (IH r1 hi l r a x A3 (no_merge_tail _ _ N) H Hx Lk).
      + (* the head covers x-1: then it ends at l = x and abuts our segment, which is next *)
        destruct (Z_le_gt_dec l (x - 1)) as [|G2]; [assumption|]. exfalso.
        assert (l = x) by lia. subst l. assert (r1 = x) by lia. subst r1.
        rewrite lookup_head in Lk by lia. inversion Lk; subst a1.
        destruct t as [|[[l2 r2] a2] t']; [contradiction|].
        simpl in A3. destruct A3 as (C1 & C2 & C3).
        destruct H as [H|H].
        * inversion H; subst l2 r2 a2. simpl in N. destruct N as [N _]. rewrite eqb_refl in N.
          specialize (N eq_refl). discriminate.
        * destruct (ordered_in _ _ _ _ _ _ C3 H) as (D1 & _). lia.
  Qed.

  (* ... and therefore over every stretch of positions carrying its label *)
  Lemma run_reach_right rs lo hi l r a x : ordered lo hi rs -> no_merge rs -> In (l, r, a) rs -> l <= x < r ->
    forall n, (forall z, x <= z <= x + Z.of_nat n -> lookup z rs = Some a) -> x + Z.of_nat n < r.
  Proof.
    intros O N H Hx. induction n as [|n IH]; intros Hz; [lia|].
    assert (IH' : x + Z.of_nat n < r) by (apply IH; intros z Hz'; apply Hz; lia).
    replace (x + Z.of_nat (S n)) with (x + Z.of_nat n + 1) by lia.
    apply (run_ext_right rs lo hi l r a (x + Z.of_nat n) O N H); [lia|]. apply Hz. lia.
  Qed.

  Lemma run_reach_left rs lo hi l r a x : ordered lo hi rs -> no_merge rs -> In (l, r, a) rs -> l <= x < r ->
    forall n, (forall z, x - Z.of_nat n <= z <= x -> lookup z rs = Some a) -> l <= x - Z.of_nat n.
  Proof.
    intros O N H Hx. induction n as [|n IH]; intros Hz; [lia|].
    assert (IH' : l <= x - Z.of_nat n) by (apply IH; intros z Hz'; apply Hz; lia).
    replace (x - Z.of_nat (S n)) with (x - Z.of_nat n - 1) by lia.
    apply (run_ext_left rs lo hi l r a (x - Z.of_nat n) O N H); [lia|]. apply Hz. lia.
  Qed.

  Lemma ordered_nodup lo hi rs : ordered lo hi rs -> NoDup rs.
  Proof.
    revert lo; induction rs as [|[[l1 r1] a1] t IH]; intros lo O; [constructor|].
    simpl in O. destruct O as (A1 & A2 & A3). constructor; [|eapply IH; eauto].
    intros H. destruct (ordered_in _ _ _ _ _ _ A3 H) as (B1 & _). lia.
  Qed.

End RunsProofs.

(* Non-vacuity: a label list with a gap, a label change without a gap and a repeated label. *)
Example runs_example :
  runs Z.eqb 3 [Some 7; Some 7; None; Some 7; Some 8; Some 8; None]
  = [(3, 5, 7); (6, 7, 7); (7, 9, 8)].
Proof. reflexivity. Qed.

Example runs_example_expand :
  let rs := runs Z.eqb 3 [Some 7; Some 7; None; Some 7; Some 8; Some 8; None] in
  map (fun x => lookup x rs) (zrange 3 7) = [Some 7; Some 7; None; Some 7; Some 8; Some 8; None].
Proof. reflexivity. Qed.
