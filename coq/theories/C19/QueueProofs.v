(* C19 — the growable per-edge segment queue: pushing never loses an element across a growth and never
   writes outside the array, for ANY initial capacity >= 1 and any number of elements; the "grow only when
   full and forget to append" restructuring (seeded change C19-10) is refuted. *)
From Coq Require Import List ZArith Bool Lia Arith.
From TskVerif Require Import Base.Common C19.Model C19.IbdAlg.
Import ListNotations.

Lemma cq_push_inv q s : (length (cq_items q) < cq_cap q)%nat ->
  exists q', cq_push q s = Ok q' /\ cq_items q' = cq_items q ++ [s] /\
             (length (cq_items q') < cq_cap q')%nat /\ (cq_cap q <= cq_cap q')%nat.
Proof.
  intros H. unfold cq_push.
  destruct (Nat.eqb (length (cq_items q)) (cq_cap q - 1)) eqn:E.
  - apply Nat.eqb_eq in E.
    replace (Nat.ltb (length (cq_items q)) (2 * cq_cap q)) with true by (symmetry; apply Nat.ltb_lt; lia).
    eexists. split; [reflexivity|]. cbn [cq_items cq_cap]. rewrite app_length. simpl. repeat split; lia.
  - apply Nat.eqb_neq in E.
    replace (Nat.ltb (length (cq_items q)) (cq_cap q)) with true by (symmetry; apply Nat.ltb_lt; lia).
    eexists. split; [reflexivity|]. cbn [cq_items cq_cap]. rewrite app_length. simpl. repeat split; lia.
Qed.

Lemma cq_fill_inv : forall xs q, (length (cq_items q) < cq_cap q)%nat ->
  exists q', cq_fill q xs = Ok q' /\ cq_items q' = cq_items q ++ xs /\ (length (cq_items q') < cq_cap q')%nat.
Proof.
  induction xs as [|s t IH]; intros q H; cbn [cq_fill].
  - exists q. rewrite app_nil_r. split; [reflexivity|]. split; [reflexivity | exact H].
  - destruct (cq_push_inv q s H) as (q1 & E1 & I1 & L1 & _). rewrite E1. cbn [bind].
    destruct (IH q1 L1) as (q2 & E2 & I2 & L2). exists q2. split; [exact E2|]. split; [rewrite I2, I1, <- app_assoc; reflexivity | exact L2].
Qed.

(* no element is lost, none is reordered, the write index stays inside the array and one slot stays free *)
Lemma queue_growth_no_loss_lemma :
  forall (cap : nat) (xs : list seg), (1 <= cap)%nat ->
    exists q, cq_fill (mkCQ cap []) xs = Ok q /\ cq_items q = xs /\ (length xs < cq_cap q)%nat.
Proof.
  intros cap xs H. destruct (cq_fill_inv xs (mkCQ cap []) ltac:(simpl; lia)) as (q & E & I & L).
  exists q. simpl in I. rewrite I in L. auto.
Qed.

(* the sweep's list queue IS the content of the array queue filled with the same segments *)
Lemma queue_of_is_array_content_lemma :
  forall ms2 e cs, exists q, cq_fill (mkCQ 64 []) (queue_of ms2 e cs) = Ok q /\ cq_items q = queue_of ms2 e cs.
Proof.
  intros. destruct (queue_growth_no_loss_lemma 64 (queue_of ms2 e cs) ltac:(lia)) as (q & E & I & _). eauto.
Qed.

(* seeded change C19-10: with capacity 2 the third element is dropped; with the real capacity 64 the 65th *)
Lemma queue_growth_mutant_refuted_lemma :
  exists (cap : nat) (xs : list seg) (q : cqueue),
    (1 <= cap)%nat /\ cq_fill_mutant (mkCQ cap []) xs = Ok q /\ cq_items q <> xs.
Proof.
  exists 2%nat, [(0, 1, 0); (0, 1, 1); (0, 1, 2)]%Z, (mkCQ 4 [(0, 1, 0); (0, 1, 1)]%Z).
  split; [lia|]. split; [reflexivity | discriminate].
Qed.

Example queue_growth_mutant_at_64 :
  let xs := map (fun i => (0, 1, Z.of_nat i)%Z) (seq 0 70) in
  (exists q, cq_fill (mkCQ 64 []) xs = Ok q /\ length (cq_items q) = 70%nat /\ cq_cap q = 128%nat) /\
  (exists q, cq_fill_mutant (mkCQ 64 []) xs = Ok q /\ length (cq_items q) = 69%nat /\
             ~ In (0, 1, 64)%Z (cq_items q)).
Proof.
  split.
  - eexists. split; [vm_compute; reflexivity|]. split; reflexivity.
  - eexists. split; [vm_compute; reflexivity|]. split; [reflexivity|].
    vm_compute. intros H. repeat (destruct H as [H|H]; [discriminate H|]). exact H.
Qed.
