(* C19 — the Python result classes (IdentitySegments / IdentitySegmentList) as a facade over the
   container model: lookup is symmetric, `pairs` lists exactly the pairs that can be looked up, in
   increasing order, len() is its length, a pair's list is the records of that pair in emission order. *)
From Coq Require Import List ZArith Bool Lia.
From TskVerif Require Import Base.Common C19.Model C19.StoreProofs.
Import ListNotations.
Open Scope Z_scope.

(* C19-7 class: result[(a, b)] and result[(b, a)] are the same *)
Lemma facade_lookup_symmetric_lemma st a b : py_getitem st a b = py_getitem st b a.
Proof.
  unfold py_getitem, store_get. rewrite (pair_to_integer_sym b a), (Z.eqb_sym b a).
  replace ((b <? 0) || (a <? 0) || (st_N st <=? b) || (st_N st <=? a))
    with ((a <? 0) || (b <? 0) || (st_N st <=? a) || (st_N st <=? b)); [reflexivity|].
  destruct (a <? 0), (b <? 0), (st_N st <=? a), (st_N st <=? b); reflexivity.
Qed.

(* what a lookup returns, for a container filled by any sequence of records *)
Lemma facade_getitem_lemma N sp ss rs a b :
  let st := add_all (store_init N sp ss) rs in
  0 <= a < N -> 0 <= b < N -> a <> b -> sp || ss = true ->
  py_getitem st a b =
  match pl_of ss (recs_of N (pair_to_integer a b N) rs) with Some p => PyOk p | None => PyKeyError end.
Proof.
  intros st Ha Hb Hab Hk.
  destruct (aggregates_consistent_lemma N sp ss rs) as (_ & _ & _ & Hp & _). fold st in Hp.
  destruct (Hp Hk) as (_ & _ & _ & Hfind & _).
  destruct (add_all_fields rs (store_init N sp ss)) as (Ep & _ & EN). fold st in Ep, EN. simpl in Ep, EN.
  unfold py_getitem, store_get. rewrite EN, Ep, Hk.
  replace ((a <? 0) || (b <? 0) || (N <=? a) || (N <=? b)) with false.
  2:{ symmetry. repeat (apply orb_false_iff; split); try (apply Z.ltb_ge; lia); apply Z.leb_gt; lia. }
  replace (a =? b) with false by (symmetry; apply Z.eqb_neq; exact Hab). cbn [negb].
  rewrite Hfind. reflexivity.
Qed.

(* len(result) = len(result.pairs); without store_pairs both raise IdentityPairsNotStoredError *)
Lemma facade_len_lemma st :
  match py_num_pairs st, py_pairs st with
  | PyOk n, PyOk ks => n = zlen ks
  | PyPairsNotStored, PyPairsNotStored => True
  | _, _ => False
  end.
Proof.
  unfold py_num_pairs, py_pairs, store_num_pairs, store_keys. destruct (st_pairs st); [|exact I].
  unfold zlen. rewrite map_length. reflexivity.
Qed.

(* every listed pair is a pair (a, b) with a < b in range, can be looked up in both orders, and pairs
   come in strictly increasing key order (so there are no duplicates) *)
Lemma keys_sorted_from_in lo m k p : keys_sorted_from lo m -> In (k, p) m -> lo < k.
Proof.
  revert lo; induction m as [|[k1 p1] t IH]; simpl; intros lo H Hin; [contradiction|].
  destruct H as [H1 H2]. destruct Hin as [E|Hin]; [inversion E; subst; exact H1|].
  specialize (IH k1 H2 Hin). lia.
Qed.

Lemma map_find_in lo m k p : keys_sorted_from lo m -> In (k, p) m -> map_find k m = Some p.
Proof.
  revert lo; induction m as [|[k1 p1] t IH]; simpl; intros lo H Hin; [contradiction|].
  destruct H as [H1 H2]. destruct Hin as [E|Hin].
  - inversion E; subst. rewrite Z.eqb_refl. reflexivity.
  - pose proof (keys_sorted_from_in _ _ _ _ H2 Hin). replace (k =? k1) with false by (symmetry; apply Z.eqb_neq; lia).
    eapply IH; eauto.
Qed.

Lemma facade_pairs_lemma N sp ss rs :
  let st := add_all (store_init N sp ss) rs in
  sp || ss = true ->
  Forall (fun r => 0 <= rec_a r < N /\ 0 <= rec_b r < N /\ rec_a r <> rec_b r) rs ->
  forall a b, In (a, b) (store_keys st) ->
    0 <= a < b /\ b < N /\ exists p, py_getitem st a b = PyOk p /\ py_getitem st b a = PyOk p /\ 1 <= py_list_len p.
Proof.
  intros st Hk Hr a b Hin.
  destruct (aggregates_consistent_lemma N sp ss rs) as (_ & _ & _ & Hp & _). fold st in Hp.
  destruct (Hp Hk) as (Hs & _ & _ & Hfind & Hn).
  destruct (add_all_fields rs (store_init N sp ss)) as (Ep & _ & EN). fold st in Ep, EN. simpl in Ep, EN.
  unfold store_keys in Hin. rewrite EN in Hin. apply in_map_iff in Hin as ([k p] & E & Hkp). cbn [fst] in E.
  (* the key comes from some record of an in-range pair *)
  apply keys_sorted_iff in Hs as [lo Hs].
  pose proof (map_find_in _ _ _ _ Hs Hkp) as F. rewrite Hfind in F.
  unfold pl_of, recs_of in F.
  destruct (filter (fun r => rec_key N r =? k) rs) as [|r0 t] eqn:EF; [discriminate|].
  assert (Hr0 : In r0 (filter (fun r => rec_key N r =? k) rs)) by (rewrite EF; left; reflexivity).
  apply filter_In in Hr0 as [Hr0 Ek]. apply Z.eqb_eq in Ek.
  rewrite Forall_forall in Hr. destruct (Hr r0 Hr0) as (Ra & Rb & Rne).
  unfold rec_key in Ek. rewrite <- Ek, (integer_to_pair_key _ _ N Ra Rb) in E. inversion E; subst a b.
  assert (Hmin : 0 <= Z.min (rec_a r0) (rec_b r0) < Z.max (rec_a r0) (rec_b r0)) by lia.
  split; [lia|]. split; [lia|].
  exists p.
  assert (G : py_getitem st (Z.min (rec_a r0) (rec_b r0)) (Z.max (rec_a r0) (rec_b r0)) = PyOk p).
  { unfold py_getitem, store_get. rewrite EN, Ep, Hk.
    replace ((Z.min (rec_a r0) (rec_b r0) <? 0) || (Z.max (rec_a r0) (rec_b r0) <? 0)
             || (N <=? Z.min (rec_a r0) (rec_b r0)) || (N <=? Z.max (rec_a r0) (rec_b r0))) with false.
    2:{ symmetry. repeat (apply orb_false_iff; split); try (apply Z.ltb_ge; lia); apply Z.leb_gt; lia. }
    replace (Z.min (rec_a r0) (rec_b r0) =? Z.max (rec_a r0) (rec_b r0)) with false by (symmetry; apply Z.eqb_neq; lia).
    cbn [negb].
    assert (Ekey : pair_to_integer (Z.min (rec_a r0) (rec_b r0)) (Z.max (rec_a r0) (rec_b r0)) N = k).
    { rewrite <- Ek. unfold pair_to_integer.
      replace (Z.max (rec_a r0) (rec_b r0) <? Z.min (rec_a r0) (rec_b r0)) with false by (symmetry; apply Z.ltb_ge; lia).
      destruct (rec_b r0 <? rec_a r0) eqn:E2; [apply Z.ltb_lt in E2 | apply Z.ltb_ge in E2].
      - rewrite Z.min_r, Z.max_l by lia. reflexivity.
      - rewrite Z.min_l, Z.max_r by lia. reflexivity. }
    rewrite Ekey, (map_find_in _ _ _ _ Hs Hkp). reflexivity. }
  split; [exact G|]. split; [rewrite facade_lookup_symmetric_lemma; exact G|].
  rewrite Forall_forall in Hn. exact (Hn (k, p) Hkp).
Qed.
