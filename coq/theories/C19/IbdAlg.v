(* C19 — faithful executable model of the IBD finder of /repo/c/tskit/tables.c
   (definitions only; proofs are in AlgProofs.v).

   Modelled, line by line:
     tsk_ibd_finder_init                   8753-8797  (parameter checks)
     tsk_ibd_finder_init_samples_from_set  8693-8716  (guard `u > num_rows` kept as written)
     tsk_ibd_finder_init_samples_from_nodes 8718-8730
     tsk_ibd_finder_init_between           8946-8974
     tsk_ibd_finder_add_sample_ancestry    8732-8751
     tsk_ibd_finder_enqueue_segment        8799-8828
     tsk_ibd_finder_passes_filters         8830-8845
     tsk_ibd_finder_record_ibd             8847-8872
     tsk_ibd_finder_add_queued_ancestry    8874-8891
     tsk_ibd_finder_run                    8976-9016
     tsk_table_collection_ibd_within/_between 12149-12213
   The linked lists ancestor_map_head/tail[u] are lists (append at the tail); the segment
   queue is a list; every array access is a checked [get]/[set] (OOB is a visible outcome).
   The finder never reads the result container, so the calls of
   tsk_identity_segments_add_segment are collected as a list of records in emission order
   and folded into the container model (Model.add_all) afterwards.  Memory allocation
   failures (TSK_ERR_NO_MEMORY) and the growth of the queue array are not modelled. *)
From Coq Require Import List ZArith Bool Lia.
From TskVerif Require Import Base.Common C19.Model.
Import ListNotations.
Open Scope Z_scope.

(* error classes (the Python layer maps all of them to LibraryError) *)
Definition ERR_NODE_OUT_OF_BOUNDS : Z := 1.
Definition ERR_DUPLICATE_SAMPLE : Z := 2.
Definition ERR_BAD_PARAM_VALUE : Z := 3.

Definition amap := list (list seg).      (* ancestor_map_head[u] .. tail, per node *)

Record params := mkParams {
  p_ms2 : Z;                             (* 2 * min_span *)
  p_mt2 : option Z;                      (* 2 * max_time, None = DBL_MAX / inf *)
  p_between : bool;                      (* finding_between *)
  p_ssid : list Z;                       (* sample_set_id, -1 = TSK_NULL *)
  p_times : list Z
}.

(* ---- initialisation ---------------------------------------------------------------- *)

(* one iteration of the loops at 8701-8713 / 8956-8968 *)
Definition mark_sample (N : Z) (setid : Z) (ssid : list Z) (u : Z) : res (list Z) :=
  if (u <? 0) || (N <? u) then Err ERR_NODE_OUT_OF_BOUNDS else
  do cur <- get ssid u;
  if negb (cur =? -1) then Err ERR_DUPLICATE_SAMPLE else set ssid u setid.

Fixpoint mark_samples (N setid : Z) (ssid : list Z) (us : list Z) : res (list Z) :=
  match us with
  | [] => Ok ssid
  | u :: t => do s' <- mark_sample N setid ssid u; mark_samples N setid s' t
  end.

Fixpoint mark_sets (N j : Z) (ssid : list Z) (sets : list (list Z)) : res (list Z) :=
  match sets with
  | [] => Ok ssid
  | s :: t => do s' <- mark_samples N j ssid s; mark_sets N (j + 1) s' t
  end.

Definition null_ssid (N : Z) : list Z := repeat (-1) (Z.to_nat N).

Definition init_ssid (c : case) : res (list Z) :=
  let N := num_nodes c in
  match cgroups c with
  | GDefault => Ok (map (fun f => if Z.odd f then 0 else -1) (cflags c))
  | GWithin w => mark_samples N 0 (null_ssid N) w
  | GBetween sets => mark_sets N 0 (null_ssid N) sets
  end.

(* tsk_ibd_finder_add_sample_ancestry *)
Definition init_amap (L : Z) (ssid : list Z) : amap :=
  map (fun us => if negb (snd us =? -1) then [(0, L, fst us)] else [])
      (combine (zrange 0 (length ssid)) ssid).

(* ---- the sweep --------------------------------------------------------------------- *)

(* enqueue_segment applied to one ancestry segment of the child (8997-9004, 8807-8825) *)
Definition enqueue (ms2 left right : Z) (s : seg) : list seg :=
  let l := Z.max left (seg_left s) in
  let r := Z.min right (seg_right s) in
  if ms2 <? 2 * (r - l) then [(l, r, seg_node s)] else [].

Definition queue_of (ms2 : Z) (e : edge) (child_segs : list seg) : list seg :=
  flat_map (enqueue ms2 (eleft e) (eright e)) child_segs.

(* passes_filters (8830-8845) *)
Definition passes (P : params) (a b l r : Z) : res bool :=
  if a =? b then Ok false else
  if 2 * (r - l) <=? p_ms2 P then Ok false else
  if p_between P then
    do x <- get (p_ssid P) a; do y <- get (p_ssid P) b; Ok (negb (x =? y))
  else Ok true.

(* body of the double loop of record_ibd *)
Definition record_one (P : params) (parent : Z) (s0 s1 : seg) : res (list record) :=
  let l := Z.max (seg_left s0) (seg_left s1) in
  let r := Z.min (seg_right s0) (seg_right s1) in
  do ok <- passes P (seg_node s0) (seg_node s1) l r;
  Ok (if ok then [((seg_node s0, seg_node s1), (l, r, parent))] else []).

Fixpoint record_inner (P : params) (parent : Z) (s0 : seg) (q : list seg) : res (list record) :=
  match q with
  | [] => Ok []
  | s1 :: t => do x <- record_one P parent s0 s1; do y <- record_inner P parent s0 t; Ok (x ++ y)
  end.

Fixpoint record_ibd (P : params) (parent : Z) (ps q : list seg) : res (list record) :=
  match ps with
  | [] => Ok []
  | s0 :: t => do x <- record_inner P parent s0 q; do y <- record_ibd P parent t q; Ok (x ++ y)
  end.

(* body of the edge loop after the max_time test (8997-9012) *)
Definition step (P : params) (e : edge) (A : amap) : res (amap * list record) :=
  do cs <- get A (echild e);
  let q := queue_of (p_ms2 P) e cs in
  do ps <- get A (eparent e);
  do recs <- record_ibd P (eparent e) ps q;
  do A' <- set A (eparent e) (ps ++ q);
  Ok (A', recs).

Definition too_old (mt2 : option Z) (t : Z) : bool :=
  match mt2 with None => false | Some m => m <? 2 * t end.

Fixpoint run_edges (P : params) (es : list edge) (A : amap) : res (amap * list record) :=
  match es with
  | [] => Ok (A, [])
  | e :: t =>
      do tm <- get (p_times P) (eparent e);
      if too_old (p_mt2 P) tm then Ok (A, []) else
      do AR <- step P e A;
      do AR' <- run_edges P t (fst AR);
      Ok (fst AR', snd AR ++ snd AR')
  end.

(* ---- entry points ------------------------------------------------------------------ *)

Definition neg_opt (o : option Z) : bool := match o with Some m => m <? 0 | None => false end.

(* the records in emission order *)
Definition ibd_records (c : case) : res (list record) :=
  if (cminspan2 c <? 0) || neg_opt (cmaxtime2 c) then Err ERR_BAD_PARAM_VALUE else
  do ssid <- init_ssid c;
  let P := mkParams (cminspan2 c) (cmaxtime2 c) (is_between c) ssid (ctimes c) in
  do AR <- run_edges P (cedges c) (init_amap (cL c) ssid);
  Ok (snd AR).

(* tsk_table_collection_ibd_within / _between with the two store options *)
Definition ibd_alg (c : case) (store_pairs store_segments : bool) : res store :=
  do recs <- ibd_records c;
  Ok (add_all (store_init (num_nodes c) store_pairs store_segments) recs).

(* ---- per-run correspondence -------------------------------------------------------- *)

Definition summ_eqb (x y : (Z * Z) * (Z * Z)) (exact : bool) : bool :=
  pair_eqb (fst x) (fst y) && (fst (snd x) =? fst (snd y)) && (negb exact || (snd (snd x) =? snd (snd y))).

(* C output = algorithm model, exactly:
     stored : per pair (key order) the segments in the order C returns them (store_segments)
     summ   : per pair (n, total_span) observed with store_pairs only
     nseg, tot : totals observed with neither option
   total spans are compared only when the coordinate scale is exactly representable *)
Definition c19_check_alg (c : case) (stored : result) (summ : list ((Z * Z) * (Z * Z)))
           (nseg tot : Z) (exact : bool) : bool :=
  match ibd_alg c true true, ibd_alg c true false, ibd_alg c false false with
  | Ok sTT, Ok sTF, Ok sFF =>
      result_eqb (combine (store_keys sTT) (map (fun kp => pl_segs (snd kp)) (st_map sTT))) stored
      && (st_n sTT =? nseg) && (negb exact || (st_span sTT =? tot))
      && list_eqb (fun x y => summ_eqb x y exact)
           (combine (store_keys sTF) (map (fun kp => (pl_n (snd kp), pl_span (snd kp))) (st_map sTF))) summ
      && forallb (fun kp => match pl_segs (snd kp) with [] => true | _ => false end) (st_map sTF)
      && (st_n sTF =? nseg) && (negb exact || (st_span sTF =? tot))
      && match st_map sFF with [] => true | _ => false end
      && (st_n sFF =? nseg) && (negb exact || (st_span sFF =? tot))
  | _, _, _ => false
  end.

(* malformed arguments: the model's error class *)
Definition c19_alg_rejects (c : case) : bool :=
  match ibd_records c with Err _ => true | _ => false end.

(* the Python facade observed on the C result = the facade model on the algorithm model's container:
   probes = requested pairs with the observed len() of result[(a,b)] (None = KeyError), both orders *)
Definition probe_ok (st : store) (a b : Z) (on : option Z) : bool :=
  match py_getitem st a b, on with
  | PyOk p, Some n => py_list_len p =? n
  | PyKeyError, None => true
  | _, _ => false
  end.

Definition c19_check_facade (c : case) (probes : list (Z * Z * option Z)) (npairs : Z) : bool :=
  match ibd_alg c true true, ibd_alg c false false with
  | Ok st, Ok st0 =>
      forallb (fun p => probe_ok st (fst (fst p)) (snd (fst p)) (snd p) && probe_ok st (snd (fst p)) (fst (fst p)) (snd p)) probes
      && match py_num_pairs st with PyOk n => n =? npairs | _ => false end
      && match py_num_pairs st0, py_pairs st0 with PyPairsNotStored, PyPairsNotStored => true | _, _ => false end
      && match py_pairs st with PyOk ks => (zlen ks =? npairs) | _ => false end
  | _, _ => false
  end.

(* ---- the growable segment queue (tsk_ibd_finder_enqueue_segment, tables.c: the array starts with
   max_segment_queue_size = 64 entries; "make sure we always have room for one more segment": when
   size == max - 1 the capacity is doubled (realloc), THEN the segment is written at index size and
   size is incremented).  In run_edges above the queue is a list; this is the array underneath it. ---- *)
Record cqueue := mkCQ { cq_cap : nat; cq_items : list seg }.      (* size = length cq_items *)

Definition cq_push (q : cqueue) (s : seg) : res cqueue :=
  let size := length (cq_items q) in
  let cap' := if Nat.eqb size (cq_cap q - 1) then (2 * cq_cap q)%nat else cq_cap q in
  if Nat.ltb size cap' then Ok (mkCQ cap' (cq_items q ++ [s])) else OOB.     (* write at index size *)

Fixpoint cq_fill (q : cqueue) (xs : list seg) : res cqueue :=
  match xs with [] => Ok q | s :: t => do q' <- cq_push q s; cq_fill q' t end.

(* the restructuring of seeded change C19-10: grow only when completely full, and the grow branch
   forgets to append *)
Definition cq_push_mutant (q : cqueue) (s : seg) : res cqueue :=
  let size := length (cq_items q) in
  if Nat.eqb size (cq_cap q) then Ok (mkCQ (2 * cq_cap q) (cq_items q))
  else Ok (mkCQ (cq_cap q) (cq_items q ++ [s])).

Fixpoint cq_fill_mutant (q : cqueue) (xs : list seg) : res cqueue :=
  match xs with [] => Ok q | s :: t => do q' <- cq_push_mutant q s; cq_fill_mutant q' t end.
