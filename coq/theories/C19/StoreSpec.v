(* C19 — packaging: the container filled by the algorithm model IS the specification's result
   (pairs in key order, per-pair lists as multisets, per-pair and global summaries). *)
From Coq Require Import List ZArith Bool Lia Arith Permutation.
From TskVerif Require Import Base.Common C19.Model C19.IbdAlg C19.RunsProofs C19.StoreProofs C19.SpecProofs
  C19.AlgProofs C19.SliceProofs C19.RefineProofs C19.TwoPos C19.FullProofs C19.GroupProofs C19.TotalProofs
  C19.FacadeProofs.
Import ListNotations.
Open Scope Z_scope.

Lemma flat_map_ext_in_c19 {A B} (f g : A -> list B) l : (forall a, In a l -> f a = g a) -> flat_map f l = flat_map g l.
Proof.
  induction l as [|h t IH]; intros H; simpl; [reflexivity|].
  rewrite (H h (or_introl eq_refl)), IH; [reflexivity|]. intros a Ha. apply H. right. exact Ha.
Qed.

Definition pkey (N : Z) (q : Z * Z) : Z := pair_to_integer (fst q) (snd q) N.

(* strictly increasing keys of a list of pairs *)
Fixpoint pairs_sorted_from (N lo : Z) (Q : list (Z * Z)) : Prop :=
  match Q with [] => True | q :: t => lo < pkey N q /\ pairs_sorted_from N (pkey N q) t end.

Lemma pairs_sorted_weaken N lo lo' Q : pairs_sorted_from N lo Q -> lo' <= lo -> pairs_sorted_from N lo' Q.
Proof. destruct Q; simpl; [tauto|]. intros [H1 H2] H. split; [lia | exact H2]. Qed.

Lemma pairs_sorted_in N lo Q q : pairs_sorted_from N lo Q -> In q Q -> lo < pkey N q.
Proof.
  revert lo; induction Q as [|h t IH]; simpl; intros lo H Hin; [contradiction|].
  destruct H as [H1 H2]. destruct Hin as [<-|Hin]; [exact H1|]. specialize (IH _ H2 Hin). lia.
Qed.

Lemma map_find_gt lo m k : keys_sorted_from lo m -> k <= lo -> map_find k m = None.
Proof. apply map_find_below. Qed.

(* enumerating a sorted map along a sorted list of candidate keys that covers it gives the map back *)
Definition enum (N : Z) (m : list (Z * plist)) (Q : list (Z * Z)) : list (Z * plist) :=
  flat_map (fun q => match map_find (pkey N q) m with Some p => [(pkey N q, p)] | None => [] end) Q.

Lemma enum_nil N Q : enum N [] Q = [].
Proof. unfold enum. induction Q; simpl; auto. Qed.

Lemma enum_eq N : forall Q m lo,
  pairs_sorted_from N lo Q -> keys_sorted_from lo m ->
  (forall k p, In (k, p) m -> exists q, In q Q /\ pkey N q = k) ->
  enum N m Q = m.
Proof.
  induction Q as [|q Q' IH]; intros m lo HQ Hm Hcov.
  - destruct m as [|[k p] t]; [reflexivity|]. destruct (Hcov k p (or_introl eq_refl)) as (q & [] & _).
  - simpl in HQ. destruct HQ as [HQ1 HQ2].
    destruct m as [|[k1 p1] m']; [apply enum_nil|].
    simpl in Hm. destruct Hm as [Hm1 Hm2].
    assert (Hle : pkey N q <= k1).
    { destruct (Hcov k1 p1 (or_introl eq_refl)) as (q'' & [<-|Hin] & E); [lia|].
      pose proof (pairs_sorted_in _ _ _ _ HQ2 Hin). lia. }
    unfold enum. cbn [flat_map]. fold (enum N ((k1, p1) :: m') Q').
    destruct (Z.eq_dec (pkey N q) k1) as [E|Hne].
    + cbn [map_find]. rewrite E, Z.eqb_refl. cbn [app]. f_equal.
      (* later candidates have larger keys: they look only into m' *)
      assert (G : enum N ((k1, p1) :: m') Q' = enum N m' Q').
      { unfold enum. apply flat_map_ext_in_c19. intros q' Hq'. cbn [map_find].
        pose proof (pairs_sorted_in _ _ _ _ HQ2 Hq'). replace (pkey N q' =? k1) with false by (symmetry; apply Z.eqb_neq; lia).
        reflexivity. }
      rewrite G. apply (IH m' k1); [rewrite <- E; exact HQ2 | exact Hm2 |].
      intros k p Hin. destruct (Hcov k p (or_intror Hin)) as (q'' & [<-|Hq''] & Ek); [|eauto].
      pose proof (keys_sorted_from_in _ _ _ _ Hm2 Hin). lia.
    + assert (Hlt : pkey N q < k1) by lia.
      replace (map_find (pkey N q) ((k1, p1) :: m')) with (@None plist).
      2:{ symmetry. apply (map_find_below (pkey N q)); [split; [lia | exact Hm2] | lia]. }
      cbn [app]. apply (IH ((k1, p1) :: m') (pkey N q)); [exact HQ2 | split; [lia | exact Hm2] |].
      intros k p Hin. destruct (Hcov k p Hin) as (q'' & [<-|Hq''] & Ek); [|eauto].
      destruct Hin as [Hin|Hin]; [inversion Hin; lia | pose proof (keys_sorted_from_in _ _ _ _ Hm2 Hin); lia].
Qed.

(* ---- the requested pairs: membership and key order --------------------------------------------------- *)

Lemma requested_pairs_in c a b :
  In (a, b) (requested_pairs c) <->
  (0 <= a < num_nodes c /\ 0 <= b < num_nodes c /\ a < b /\ pair_requested c a b = true).
Proof.
  unfold requested_pairs, num_nodes, zlen. rewrite in_flat_map. split.
  - intros (a' & Ha & H). apply in_flat_map in H as (b' & Hb & H).
    destruct ((a' <? b') && pair_requested c a' b') eqn:E; [|contradiction].
    destruct H as [H|[]]. inversion H; subst. apply andb_true_iff in E as [E1 E2]. apply Z.ltb_lt in E1.
    apply in_zrange in Ha. apply in_zrange in Hb. repeat split; try lia. exact E2.
  - intros (Ha & Hb & Hlt & Hr). exists a. split; [apply in_zrange; lia|].
    apply in_flat_map. exists b. split; [apply in_zrange; lia|].
    replace (a <? b) with true by (symmetry; apply Z.ltb_lt; lia). rewrite Hr. left. reflexivity.
Qed.

Lemma pkey_lt N a b : a < b -> pkey N (a, b) = a * N + b.
Proof. intros H. unfold pkey, pair_to_integer; cbn [fst snd]. replace (b <? a) with false by (symmetry; apply Z.ltb_ge; lia). reflexivity. Qed.

Lemma pairs_sorted_app N lo mid l1 l2 :
  pairs_sorted_from N lo l1 -> (forall q, In q l1 -> pkey N q <= mid) -> lo <= mid ->
  pairs_sorted_from N mid l2 -> pairs_sorted_from N lo (l1 ++ l2).
Proof.
  revert lo; induction l1 as [|h t IH]; intros lo H1 Hb Hle H2; simpl.
  - eapply pairs_sorted_weaken; eauto.
  - simpl in H1. destruct H1 as [A1 A2]. split; [exact A1|].
    apply IH; [exact A2 | intros q Hq; apply Hb; right; exact Hq | apply Hb; left; reflexivity | exact H2].
Qed.

Lemma inner_sorted (N : Z) (req : Z -> bool) a : forall m t lo, lo < a * N + t ->
  pairs_sorted_from N lo (flat_map (fun b => if (a <? b) && req b then [(a, b)] else []) (zrange t m)).
Proof.
  induction m as [|m IH]; intros t lo Hlo; cbn [zrange flat_map]; [exact I|].
  destruct ((a <? t) && req t) eqn:E; cbn [app].
  - apply andb_true_iff in E as [E _]. apply Z.ltb_lt in E. split; [rewrite pkey_lt by lia; lia|].
    apply IH. rewrite pkey_lt by lia. lia.
  - apply IH. lia.
Qed.

Lemma inner_bound (N : Z) (req : Z -> bool) a n q : 0 <= a ->
  In q (flat_map (fun b => if (a <? b) && req b then [(a, b)] else []) (zrange 0 n)) -> N = Z.of_nat n ->
  pkey N q <= (a + 1) * N - 1.
Proof.
  intros Ha H HN. apply in_flat_map in H as (b & Hb & H).
  destruct ((a <? b) && req b) eqn:E; [|contradiction]. destruct H as [<-|[]].
  apply andb_true_iff in E as [E _]. apply Z.ltb_lt in E. apply in_zrange in Hb. rewrite pkey_lt by lia. nia.
Qed.

Lemma requested_pairs_sorted c : pairs_sorted_from (num_nodes c) (-1) (requested_pairs c).
Proof.
  unfold requested_pairs. set (n := length (ctimes c)). set (N := num_nodes c).
  assert (HN : N = Z.of_nat n) by reflexivity.
  assert (G : forall m s lo, 0 <= s -> lo <= s * N - 1 ->
              pairs_sorted_from N lo
                (flat_map (fun a => flat_map (fun b => if (a <? b) && pair_requested c a b then [(a, b)] else []) (zrange 0 n))
                          (zrange s m))).
  { induction m as [|m IH]; intros s lo Hs Hlo; cbn [zrange flat_map]; [exact I|].
    apply (pairs_sorted_app N lo ((s + 1) * N - 1)).
    - apply (inner_sorted N (pair_requested c s) s). lia.
    - intros q Hq. apply (inner_bound N (pair_requested c s) s n q Hs Hq HN).
    - nia.
    - apply IH; lia. }
  apply G; lia.
Qed.

Lemma pair_requested_sym c a b : pair_requested c a b = pair_requested c b a.
Proof.
  unfold pair_requested. destruct (group_of c a) as [i|], (group_of c b) as [j|]; try reflexivity.
  destruct (is_between c); [|reflexivity]. rewrite (Z.eqb_sym i j). reflexivity.
Qed.

Lemma group_in_range c u k : groups_wf c = true -> length (cflags c) = length (ctimes c) ->
  group_of c u = Some k -> 0 <= u < num_nodes c.
Proof.
  unfold groups_wf, group_of, num_nodes, zlen. intros Hg Hf. destruct (cgroups c) as [|w|sets].
  - destruct (get (cflags c) u) as [f| | |] eqn:G; try discriminate. intros _.
    assert (exists f, get (cflags c) u = Ok f) by eauto. apply get_ok_iff in H. unfold zlen in H. lia.
  - destruct (memz u w) eqn:M; [|discriminate]. intros _. apply andb_true_iff in Hg as [Hg _].
    rewrite forallb_forall in Hg. apply memz_in in M. specialize (Hg u M). unfold in_range in Hg.
    apply andb_true_iff in Hg as [A B]. apply Z.leb_le in A. apply Z.ltb_lt in B. unfold num_nodes, zlen in B. lia.
  - intros H. apply andb_true_iff in Hg as [Hg _]. rewrite forallb_forall in Hg.
    assert (Hin : In u (concat sets)).
    { revert H. clear Hg. generalize 0. induction sets as [|s t IH]; intros j H; cbn [set_index_from] in H; [discriminate|].
      cbn [concat]. apply in_or_app. destruct (memz u s) eqn:M; [left; apply memz_in; exact M | right; exact (IH (j + 1) H)]. }
    specialize (Hg u Hin). unfold in_range in Hg.
    apply andb_true_iff in Hg as [A B]. apply Z.leb_le in A. apply Z.ltb_lt in B. unfold num_nodes, zlen in B. lia.
Qed.

(* ---- packaging ------------------------------------------------------------------------------------------ *)

Definition segsf (c : case) (q : Z * Z) : list seg :=
  match pair_segments_filtered c (fst q) (snd q) with Ok s => s | _ => [] end.

Definition spec_rows (c : case) (Q : list (Z * Z)) : result :=
  flat_map (fun q => match segsf c q with [] => [] | s => [(q, s)] end) Q.

Lemma ibd_over_rows c : forall Q,
  (forall q, In q Q -> exists s, pair_segments_filtered c (fst q) (snd q) = Ok s) ->
  ibd_over c Q = Ok (spec_rows c Q).
Proof.
  induction Q as [|[a b] t IH]; intros H; [reflexivity|]. unfold ibd_over; fold ibd_over.
  destruct (H (a, b) (or_introl eq_refl)) as (s & Es). cbn [fst snd] in Es. rewrite Es. cbn [bind].
  rewrite IH by (intros q Hq; apply H; right; exact Hq). cbn [bind].
  change (spec_rows c ((a, b) :: t)) with (match segsf c (a, b) with [] => [] | s1 => [((a, b), s1)] end ++ spec_rows c t).
  unfold segsf at 1. cbn [fst snd]. rewrite Es. destruct s; reflexivity.
Qed.

Lemma Forall2_flat_map {A B C} (R : B -> C -> Prop) (f : A -> list B) (g : A -> list C) l :
  (forall a, In a l -> Forall2 R (f a) (g a)) -> Forall2 R (flat_map f l) (flat_map g l).
Proof.
  induction l as [|h t IH]; intros H; simpl; [constructor|].
  apply Forall2_app; [apply H; left; reflexivity | apply IH; intros a Ha; apply H; right; exact Ha].
Qed.

Lemma seg_spans_perm l l' : Permutation l l' -> seg_spans l = seg_spans l'.
Proof.
  unfold seg_spans, sumz. induction 1; simpl; try lia.
Qed.

(* one row of the container vs. one row of the specification *)
Definition row_ok (N : Z) (ss : bool) (kp : Z * plist) (p : (Z * Z) * list seg) : Prop :=
  fst kp = pkey N (fst p) /\ 0 <= fst (fst p) < snd (fst p) /\ snd (fst p) < N /\
  pl_n (snd kp) = zlen (snd p) /\ pl_span (snd kp) = seg_spans (snd p) /\
  (if ss then Permutation (pl_segs (snd kp)) (snd p) else pl_segs (snd kp) = []).

Lemma rec_key_pair_is N r a b :
  0 <= rec_a r < N -> 0 <= rec_b r < N -> 0 <= a < N -> 0 <= b < N -> a < b ->
  (rec_key N r =? pkey N (a, b)) = pair_is a b r.
Proof.
  intros Ra Rb Ha Hb Hlt. unfold rec_key, pkey, pair_is; cbn [fst snd].
  destruct (pair_to_integer (rec_a r) (rec_b r) N =? pair_to_integer a b N) eqn:E.
  - apply Z.eqb_eq in E. destruct (pair_key_injective _ _ _ _ N Ra Rb Ha Hb E) as [[-> ->]|[-> ->]];
      rewrite !Z.eqb_refl; cbn [andb orb]; [reflexivity | symmetry; apply orb_true_r].
  - apply Z.eqb_neq in E. symmetry. apply orb_false_iff. split; apply andb_false_iff.
    + destruct (rec_a r =? a) eqn:E1; [|left; reflexivity]. right. apply Z.eqb_neq. intros E2.
      apply Z.eqb_eq in E1. apply E. congruence.
    + destruct (rec_a r =? b) eqn:E1; [|left; reflexivity]. right. apply Z.eqb_neq. intros E2.
      apply Z.eqb_eq in E1. apply E. rewrite E1, E2. apply pair_to_integer_sym.
Qed.

Lemma Forall2_length_c19 {A B} (R : A -> B -> Prop) l l' : Forall2 R l l' -> length l = length l'.
Proof. induction 1; simpl; congruence. Qed.

Lemma rows_totals N ss m r : Forall2 (row_ok N ss) m r ->
  map_sum_n m = res_num_segments r /\ map_sum_span m = res_total_span r.
Proof.
  unfold map_sum_n, map_sum_span, res_num_segments, res_total_span.
  induction 1 as [|kp p m r Hrow F IH]; [split; reflexivity|].
  destruct Hrow as (_ & _ & _ & Hn & Hs & _). destruct IH as [IH1 IH2]. cbn [map].
  unfold sumz in *. cbn [fold_right]. unfold seg_spans, sumz in Hs. split; lia.
Qed.

Lemma rows_keys N ss m r : Forall2 (row_ok N ss) m r ->
  map (fun kp => integer_to_pair (fst kp) N) m = map fst r.
Proof.
  induction 1 as [|kp p m r Hrow F IH]; [reflexivity|].
  cbn [map]. rewrite IH. f_equal. destruct Hrow as (Hkey & H1 & H2 & _). rewrite Hkey.
  destruct p as [[a b] s]. cbn [fst snd] in *. unfold pkey; cbn [fst snd].
  rewrite (integer_to_pair_key a b N ltac:(lia) ltac:(lia)). rewrite Z.min_l, Z.max_r by lia. reflexivity.
Qed.

Theorem store_refines_spec_lemma :
  forall (c : case) (sp ss : bool), case_valid c = true ->
    exists (st : store) (r : result),
      ibd_alg c sp ss = Ok st /\ ibd_spec c = Ok r /\
      st_n st = res_num_segments r /\ st_span st = res_total_span r /\
      (sp || ss = true ->
         store_keys st = map fst r /\ store_num_pairs st = res_num_pairs r /\
         Forall2 (row_ok (num_nodes c) ss) (st_map st) r).
Proof.
  intros c sp ss CV. pose proof (case_valid_parts c CV) as V.
  destruct (ibd_alg_refines_spec_lemma c CV) as (out & Hout & Hpairs).
  set (N := num_nodes c). set (Q := requested_pairs c).
  (* every requested pair has a filtered specification result, permuted by its records *)
  assert (HQ : forall q, In q Q -> 0 <= fst q < snd q /\ snd q < N /\
             Permutation (map rec_seg (filter (pair_is (fst q) (snd q)) out)) (segsf c q) /\
             exists s, pair_segments_filtered c (fst q) (snd q) = Ok s).
  { intros [a b] Hq. apply requested_pairs_in in Hq as (Ha & Hb & Hlt & Hr). cbn [fst snd].
    destruct (Hpairs a b ltac:(lia)) as [H1 _]. destruct (H1 Hr) as (s & Es & Ps).
    unfold segsf; cbn [fst snd]. rewrite Es. repeat split; try (fold N; lia); eauto. }
  (* records: in-range, distinct nodes, of a requested pair *)
  assert (HR : forall r0, In r0 out -> 0 <= rec_a r0 < N /\ 0 <= rec_b r0 < N /\ rec_a r0 <> rec_b r0 /\
                                       pair_requested c (rec_a r0) (rec_b r0) = true).
  { intros r0 Hr0.
    pose proof (records_wellformed_lemma c out (vp_L c V) Hout) as W. rewrite Forall_forall in W.
    destruct (W r0 Hr0) as (_ & _ & Hne).
    assert (Hreq : pair_requested c (rec_a r0) (rec_b r0) = true).
    { destruct (pair_requested c (rec_a r0) (rec_b r0)) eqn:E; [reflexivity|]. exfalso.
      destruct (Hpairs _ _ Hne) as [_ H2]. specialize (H2 E).
      assert (Hin : In r0 (filter (pair_is (rec_a r0) (rec_b r0)) out)).
      { apply filter_In. split; [exact Hr0|]. unfold pair_is. rewrite !Z.eqb_refl. reflexivity. }
      rewrite H2 in Hin. contradiction. }
    unfold pair_requested in Hreq.
    destruct (group_of c (rec_a r0)) as [i|] eqn:Ga; [|discriminate].
    destruct (group_of c (rec_b r0)) as [j|] eqn:Gb; [|discriminate].
    pose proof (group_in_range c _ _ (vp_groups c V) (vp_flags c V) Ga).
    pose proof (group_in_range c _ _ (vp_groups c V) (vp_flags c V) Gb).
    repeat split; try (fold N; lia); auto. unfold pair_requested. rewrite Ga, Gb. exact Hreq. }
  (* the specification's result *)
  assert (Hspec : ibd_spec c = Ok (spec_rows c Q)).
  { unfold ibd_spec. apply ibd_over_rows. intros q Hq. destruct (HQ q Hq) as (_ & _ & _ & H). exact H. }
  (* the container with pairs kept *)
  assert (PACK : forall sp' ss', sp' || ss' = true ->
            let st := add_all (store_init N sp' ss') out in
            Forall2 (row_ok N ss') (st_map st) (spec_rows c Q)).
  { intros sp' ss' Hk st.
    destruct (aggregates_consistent_lemma N sp' ss' out) as (_ & _ & _ & Hp & Hs1 & Hs0). fold st in Hp, Hs1, Hs0.
    destruct (Hp Hk) as (Hsorted & _ & _ & Hfind & _).
    apply keys_sorted_iff in Hsorted as [lo Hsorted].
    (* recs_of for a requested pair = its records *)
    assert (RO : forall q, In q Q -> recs_of N (pkey N q) out = map rec_seg (filter (pair_is (fst q) (snd q)) out)).
    { intros [a b] Hq. destruct (HQ _ Hq) as (H1 & H2 & _). cbn [fst snd] in *. unfold recs_of. f_equal.
      apply filter_ext_in. intros r0 Hr0. destruct (HR r0 Hr0) as (Ra & Rb & _).
      apply rec_key_pair_is; lia. }
    rewrite <- (enum_eq N Q (st_map st) (Z.min lo (-1))).
    - unfold enum, spec_rows. apply Forall2_flat_map. intros q Hq.
      destruct (HQ q Hq) as (H1 & H2 & Pq & _). rewrite Hfind, (RO q Hq).
      set (l := map rec_seg (filter (pair_is (fst q) (snd q)) out)) in *.
      destruct (segsf c q) as [|s0 t0] eqn:Es.
      + apply Permutation_sym, Permutation_nil in Pq. rewrite Pq. constructor.
      + destruct l as [|x t] eqn:El; [apply Permutation_nil in Pq; discriminate|].
        unfold pl_of. constructor; [|constructor].
        unfold row_ok; cbn [fst snd pl_n pl_span pl_segs].
        repeat split; try lia.
        * unfold zlen. rewrite (Permutation_length Pq). reflexivity.
        * apply seg_spans_perm. exact Pq.
        * destruct ss'; [exact Pq | reflexivity].
    - eapply pairs_sorted_weaken; [apply requested_pairs_sorted | lia].
    - eapply keys_sorted_from_weaken; [exact Hsorted | lia].
    - intros k p Hin.
      pose proof (map_find_in _ _ _ _ Hsorted Hin) as F. rewrite Hfind in F. unfold pl_of, recs_of in F.
      destruct (filter (fun r0 => rec_key N r0 =? k) out) as [|r0 t] eqn:EF; [discriminate|].
      assert (Hr0 : In r0 (filter (fun r0 => rec_key N r0 =? k) out)) by (rewrite EF; left; reflexivity).
      apply filter_In in Hr0 as [Hr0 Ek]. apply Z.eqb_eq in Ek.
      destruct (HR r0 Hr0) as (Ra & Rb & Rne & Rreq).
      exists (Z.min (rec_a r0) (rec_b r0), Z.max (rec_a r0) (rec_b r0)). split.
      + apply requested_pairs_in. fold N. repeat split; try lia.
        destruct (Z_lt_ge_dec (rec_a r0) (rec_b r0)) as [L|G].
        * rewrite Z.min_l, Z.max_r by lia. exact Rreq.
        * rewrite Z.min_r, Z.max_l by lia. rewrite pair_requested_sym. exact Rreq.
      + rewrite <- Ek. unfold pkey, rec_key; cbn [fst snd]. unfold pair_to_integer.
        replace (Z.max (rec_a r0) (rec_b r0) <? Z.min (rec_a r0) (rec_b r0)) with false by (symmetry; apply Z.ltb_ge; lia).
        destruct (rec_b r0 <? rec_a r0) eqn:E2; [apply Z.ltb_lt in E2 | apply Z.ltb_ge in E2].
        * rewrite Z.min_r, Z.max_l by lia. reflexivity.
        * rewrite Z.min_l, Z.max_r by lia. reflexivity. }
  (* totals from the rows (any store option: the totals do not depend on it) *)
  assert (TOT : zlen out = res_num_segments (spec_rows c Q) /\
                sumz (map (fun r0 => seg_span (rec_seg r0)) out) = res_total_span (spec_rows c Q)).
  { pose proof (PACK true true eq_refl) as F. cbv zeta in F.
    destruct (aggregates_consistent_lemma N true true out) as (A1 & A2 & _ & Hp & _).
    destruct (Hp eq_refl) as (_ & B1 & B2 & _). rewrite <- A1, <- A2, B1, B2.
    exact (rows_totals N true _ _ F). }
  exists (add_all (store_init N sp ss) out), (spec_rows c Q).
  destruct (aggregates_consistent_lemma N sp ss out) as (A1 & A2 & _).
  split; [unfold ibd_alg; rewrite Hout; reflexivity|]. split; [exact Hspec|].
  split; [rewrite A1; apply TOT|]. split; [rewrite A2; apply TOT|].
  intros Hk. pose proof (PACK sp ss Hk) as F. cbv zeta in F.
  destruct (add_all_fields out (store_init N sp ss)) as (_ & _ & EN). simpl in EN.
  assert (K : store_keys (add_all (store_init N sp ss) out) = map fst (spec_rows c Q)).
  { unfold store_keys. rewrite EN. exact (rows_keys N ss _ _ F). }
  split; [exact K|]. split; [|exact F].
  unfold store_num_pairs, res_num_pairs, zlen. rewrite (Forall2_length_c19 _ _ _ F). reflexivity.
Qed.
