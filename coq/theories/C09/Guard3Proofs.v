From Coq Require Import List ZArith Bool Lia String.
From TskVerif Require Import Base.Common C09.Guards C09.GuardProofs C09.Guards2 C09.Guard2Proofs C09.Guards3.
Import ListNotations.
Open Scope Z_scope.

Definition seen_agree (nr : Z) (seen : list (bool * Z)) : Prop :=
  Forall (fun e => rows_of (fst e) (snd e) = nr) seen.

Lemma parse_columns_checked_agree : forall spec given nr seen r,
  forallb (fun e => snd (snd e)) spec = true -> seen_agree nr seen ->
  parse_columns spec given nr seen = Ok r -> fst r = nr /\ seen_agree nr (snd r).
Proof.
  induction spec as [|[name [io ck]] rest IH]; intros given nr seen r W A H; simpl in *.
  - inversion H; subst. simpl. auto.
  - apply andb_true_iff in W as [W1 W2]. simpl in W1. subst ck.
    destruct (lookup name given) as [len|]; [|apply (IH given nr seen r W2 A H)].
    destruct (io && (len =? 0)); [discriminate|].
    destruct (rows_of io len =? nr) eqn:E; [|discriminate]. apply Z.eqb_eq in E.
    apply (IH given nr ((io, len) :: seen) r W2); [|exact H]. constructor; [exact E | exact A].
Qed.

Lemma parse_columns_not_OOB : forall spec given nr seen, parse_columns spec given nr seen <> OOB.
Proof.
  induction spec as [|[name [io ck]] rest IH]; intros given nr seen; simpl; [discriminate|].
  destruct (lookup name given) as [len|]; [|apply IH].
  destruct (io && (len =? 0)); [discriminate|].
  destruct ck; [destruct (_ =? _); [apply IH | discriminate] | apply IH].
Qed.

Lemma read_columns_agree nr : forall seen, seen_agree nr seen -> read_columns nr seen <> OOB.
Proof.
  induction seen as [|[io len] r IH]; intro A; simpl; [discriminate|].
  pose proof (Forall_inv A) as Hx. pose proof (Forall_inv_tail A) as Hr. simpl in Hx.
  apply bind_not_OOB; [|intros _ _; apply IH; exact Hr].
  apply read_prefix_not_OOB; [lia|]. unfold zlen, alloc. rewrite repeat_length.
  unfold rows_of in Hx. destruct io; lia.
Qed.

Theorem guard_implies_in_bounds_table_columns spec given :
  spec_well_formed spec = true -> table_columns_entry spec given <> OOB.
Proof.
  intro W. unfold table_columns_entry.
  apply bind_not_OOB; [apply parse_columns_not_OOB|]. intros [nr seen] P.
  assert (seen_agree nr seen) as A.
  { destruct spec as [|[name [io c0]] rest]; simpl in *.
    - inversion P; subst. constructor.
    - apply andb_true_iff in W as [W0 W1]. apply negb_true_iff in W0. subst c0.
      destruct (lookup name given) as [len|].
      + destruct (io && (len =? 0)); [discriminate|].
        destruct (parse_columns_checked_agree rest given (rows_of io len) [(io, len)] (nr, seen) W1) as [E A]; auto.
        { constructor; [reflexivity | constructor]. }
        simpl in E. subst nr. exact A.
      + destruct (parse_columns_checked_agree rest given 0 [] (nr, seen) W1) as [E A]; auto.
        { constructor. }
        simpl in E. subst nr. exact A. }
  apply bind_not_OOB; [apply read_columns_agree; exact A | intros; discriminate].
Qed.

(* the seeded change C09-5 (and finding C09-N6 before its fix): one later column unchecked *)
Theorem table_columns_unchecked_column_mutant_refuted :
  exists spec given, table_columns_entry spec given = OOB.
Proof.
  exists [("flags"%string, (false, false)); ("time"%string, (false, true)); ("individual"%string, (false, false))],
         [("flags"%string, 2); ("time"%string, 2); ("individual"%string, 64)].
  vm_compute. reflexivity.
Qed.

Lemma check_set_indexes_forall n idx : check_set_indexes n idx = true -> Forall (fun u => 0 <= u < n) idx.
Proof.
  unfold check_set_indexes. intro H. apply Forall_forall. intros u Hu.
  rewrite forallb_forall in H. specialize (H u Hu). apply andb_true_iff in H. lia.
Qed.

Theorem guard_implies_in_bounds_relatedness_weighted_repaired nw idx :
  0 <= nw -> relatedness_weighted_entry true nw idx <> OOB.
Proof.
  intro H. unfold relatedness_weighted_entry. destruct (nw =? 0); [discriminate|]. simpl.
  destruct (check_set_indexes (nw + 1) idx) eqn:E; simpl; [|discriminate].
  apply check_set_indexes_forall in E. pose proof E as F.
  apply bind_not_OOB; [apply read_all_in_range with (nw + 1); [apply zlen_alloc; lia | exact F]|].
  intros _ _. apply read_all_in_range with (nw + 1); [apply zlen_alloc; lia | exact F].
Qed.

(* finding C09-N10 *)
Theorem relatedness_weighted_index_tuples_refuted :
  exists nw idx, 0 < nw /\ relatedness_weighted_entry false nw idx = OOB.
Proof. exists 2, [0; 7]. split; [lia | vm_compute; reflexivity]. Qed.

Theorem guard_implies_in_bounds_set_indexes n idx : 0 <= n -> set_indexes_entry n idx <> OOB.
Proof.
  intro H. unfold set_indexes_entry. destruct (check_set_indexes n idx) eqn:E; simpl; [|discriminate].
  apply read_all_in_range with n; [apply zlen_alloc; exact H | apply check_set_indexes_forall; exact E].
Qed.

Example ex_columns_ok :
  table_columns_entry [("flags"%string, (false, false)); ("time"%string, (false, true)); ("metadata_offset"%string, (true, true))]
                      [("flags"%string, 2); ("time"%string, 2); ("metadata_offset"%string, 3)] = Ok 2.
Proof. reflexivity. Qed.
Example ex_columns_rejected :
  table_columns_entry [("flags"%string, (false, false)); ("time"%string, (false, true)); ("individual"%string, (false, true))]
                      [("flags"%string, 2); ("time"%string, 2); ("individual"%string, 64)] = Err E_VALUE.
Proof. reflexivity. Qed.
Example ex_weighted_ok : relatedness_weighted_entry true 2 [0; 1] = Ok tt.
Proof. reflexivity. Qed.
Example ex_weighted_ones_column : relatedness_weighted_entry true 2 [0; 2] = Ok tt.
Proof. reflexivity. Qed.
Example ex_weighted_rejected : relatedness_weighted_entry true 2 [0; 3] = Err E_LIBRARY.
Proof. reflexivity. Qed.
