(* C09 — guard models, second tier (extension round).  Executable definitions only.
   Same conventions as Guards.v: checked access, allocation sizes from the C code, a boolean
   parameter where a guard is (or, for a seeded change, could be) defective. *)
From Coq Require Import List ZArith Bool Lia.
From TskVerif Require Import Base.Common C09.Guards.
Import ListNotations.
Open Scope Z_scope.

(* the explicit range test is equivalent to what [get] reports; it only keeps the evaluation of
   the model cheap for identifiers like 2^31 - 1 ([get] converts the index to a unary nat) *)
Fixpoint read_all (arr : list Z) (ids : list Z) : res unit :=
  match ids with
  | [] => Ok tt
  | u :: r => if (u <? 0) || (u >=? zlen arr) then OOB else do _ <- get arr u; read_all arr r
  end.

(* ------------------------------------------------------------------------------------ *)
(* c/tskit/trees.c check_sites (two-locus statistics, ld_matrix(sites=...)): every element
   but the last is bound-checked inside the loop that also checks sortedness and duplicates;
   the LAST element has its own check.  [strict_last = false] is that check written with `>`
   (the seeded change C09-2).  The validated ids then index per-site arrays of num_sites
   elements (get_site_row_col_indices, get_mutation_samples). *)
Fixpoint check_sites (strict_last : bool) (num_site_rows : Z) (sites : list Z) : res unit :=
  match sites with
  | [] => Ok tt
  | s :: rest =>
      match rest with
      | [] => if (s <? 0) || (if strict_last then s >=? num_site_rows else s >? num_site_rows)
              then Err E_LIBRARY else Ok tt
      | s' :: _ =>
          if (s <? 0) || (s >=? num_site_rows) then Err E_LIBRARY else
          if s >? s' then Err E_LIBRARY else
          if s =? s' then Err E_LIBRARY else
          check_sites strict_last num_site_rows rest
      end
  end.

Definition two_locus_sites_entry (strict_last : bool) (num_site_rows : Z) (per_site : list Z)
           (rows cols : list Z) : res unit :=
  do _ <- check_sites strict_last num_site_rows rows;
  do _ <- check_sites strict_last num_site_rows cols;
  do _ <- read_all per_site rows;
  read_all per_site cols.

(* ------------------------------------------------------------------------------------ *)
(* tsk_treeseq_mean_descendants (trees.c l.1072-1084): ref_count = calloc(num_nodes * K),
   K = num_reference_sets + 1; GET_2D_ROW(ref_count, K, u)[k] = ref_count[u * K + k] *)
Fixpoint mark_reference_set (N K k : Z) (ref : list Z) (ids : list Z) : res (list Z) :=
  match ids with
  | [] => Ok ref
  | u :: rest =>
      if (u <? 0) || (u >=? N) then Err E_LIBRARY else
      do r1 <- set ref (u * K + k) 1;
      do r2 <- set r1 (u * K + (K - 1)) 1;
      mark_reference_set N K k r2 rest
  end.

Fixpoint mark_reference_sets (N K k : Z) (ref : list Z) (sets : list (list Z)) : res (list Z) :=
  match sets with
  | [] => Ok ref
  | s :: rest => do r <- mark_reference_set N K k ref s; mark_reference_sets N K (k + 1) r rest
  end.

Definition mean_descendants_init (N : Z) (sets : list (list Z)) : res (list Z) :=
  let K := zlen sets + 1 in
  mark_reference_sets N K 0 (alloc (N * K) 0) sets.

(* tsk_treeseq_genealogical_nearest_neighbours (l.893-919): reference_set_map =
   malloc(num_nodes) memset 0xff, duplicate check, then the focal nodes are bound-checked *)
Definition gnn_init (N : Z) (per_node : list Z) (sets : list (list Z)) (focal : list Z) : res unit :=
  do _ <- ibd_between_sets true N 0 (alloc N TSK_NULL) sets;
  if existsb (fun u => (u <? 0) || (u >=? N)) focal then Err E_LIBRARY else
  read_all per_node focal.

(* ------------------------------------------------------------------------------------ *)
(* Finding C09-N5: tsk_table_collection_delete_older (tables.c l.12766, 12800-12810) and
   tsk_ibd_finder_run (l.8987-9013) index per-node arrays by ids STORED in the edge / mutation
   tables.  [checked = true] is the entry with tsk_table_collection_check_integrity(self, 0)
   (which rejects out-of-range references); [checked = false] is the code as it is. *)
Definition ids_in_range (N : Z) (ids : list Z) : bool := forallb (fun p => (0 <=? p) && (p <? N)) ids.

Definition delete_older_entry (checked : bool) (N : Z) (node_time : list Z)
           (edge_parent mutation_node : list Z) : res unit :=
  if checked && negb (ids_in_range N edge_parent && ids_in_range N mutation_node) then Err E_LIBRARY else
  do _ <- read_all node_time edge_parent;
  read_all node_time mutation_node.

Definition ibd_run_entry (checked : bool) (N : Z) (node_time ancestor_map : list Z)
           (edge_parent edge_child : list Z) : res unit :=
  if checked && negb (ids_in_range N edge_parent && ids_in_range N edge_child) then Err E_LIBRARY else
  do _ <- read_all node_time edge_parent;
  do _ <- read_all ancestor_map edge_child;
  read_all ancestor_map edge_parent.

(* ------------------------------------------------------------------------------------ *)
(* Finding C09-N8: python/tskit/combinatorics.py treeseq_count_topologies validates a sample
   set element with `ts.node(u).is_sample()`; TreeSequence.node goes through check_index
   (trees.py l.6162-6171), which wraps negative values.  [reject_negative = true] is the
   repaired check. *)
Definition count_topologies_sample_check (reject_negative : bool) (N : Z) (flags : list Z) (u : Z) : res Z :=
  if reject_negative && (u <? 0) then Err E_VALUE else
  let i := if u <? 0 then u + N else u in
  if (i <? 0) || (i >=? N) then Err E_VALUE else
  do f <- get flags i;
  if Z.odd f then Ok i else Err E_VALUE.

(* ------------------------------------------------------------------------------------ *)
(* trees.c check_positions (ld_matrix(positions=...), mode="branch"): `p < 0 || p >= L` is
   false for NaN — the same NaN-blind shape as F4/N4; [repaired] rejects unless 0 <= p < L *)
Fixpoint check_positions (repaired : bool) (L : Z) (ps : list fl) : bool :=     (* true = accepted *)
  match ps with
  | [] => true
  | p :: rest =>
      negb (if repaired then seek_guard_repaired p L else seek_guard p L)
      && match rest with
         | [] => true
         | p' :: _ => negb (fl_lt p' p) && negb (fl_eq p p') && check_positions repaired L rest
         end
  end.

(* ------------------------------------------------------------------------------------ *)
(* Finding C09-N1, repaired form: when the id arguments of the Tree accessors are parsed
   with a range-checking format ("i" / tsk_id_converter), a value outside int32 raises
   before the entry point is reached.  [checked] is re-read from _tskitmodule.c. *)
Definition with_id_parse {A} (checked : bool) (xs : list Z) (r : res A) : res A :=
  if checked && negb (forallb fits_int32 xs) then Err E_VALUE else r.

(* ------------------------------------------------------------------------------------ *)
(* tables.c tsk_table_collection_check_index_integrity (l.11106-11130): both user-suppliable
   index arrays are range-checked element by element; tsk_table_collection_check_tree_integrity
   and the tree-building code then read edge columns (num_edges elements) at I[j] and O[k].
   [ins_checked] / [rem_checked] = whether that array is tested ([rem_checked = false] is the
   seeded change C09-3, where the merged condition tests the insertion order twice). *)
Fixpoint check_index_loop (ins_checked rem_checked : bool) (ne : Z) (ins rem : list Z) (j : Z) (n : nat)
  : res unit :=
  match n with
  | O => Ok tt
  | S n' =>
      do i <- get ins j;
      do o <- get rem j;
      if ins_checked && ((i <? 0) || (i >=? ne)) then Err E_LIBRARY else
      if rem_checked && ((o <? 0) || (o >=? ne)) then Err E_LIBRARY else
      check_index_loop ins_checked rem_checked ne ins rem (j + 1) n'
  end.

Definition check_index_entry (ins_checked rem_checked : bool) (ne : Z) (ins rem edge_col : list Z) : res unit :=
  if negb ((zlen ins =? ne) && (zlen rem =? ne)) then Err E_LIBRARY (* TSK_ERR_TABLES_NOT_INDEXED *) else
  do _ <- check_index_loop ins_checked rem_checked ne ins rem 0 (Z.to_nat ne);
  do _ <- read_all edge_col ins;
  read_all edge_col rem.
