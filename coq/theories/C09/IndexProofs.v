(* C09 — user-supplied table indexes: with both arrays checked (the code in /repo) every later
   read of an edge column through the index is in bounds; with the removal order unchecked
   (seeded change C09-3) it is not. *)
From Coq Require Import List ZArith Bool Lia.
From TskVerif Require Import Base.Common C09.Guards C09.GuardProofs C09.RatesProofs C09.Guards2 C09.Guard2Proofs.
Import ListNotations.
Open Scope Z_scope.

Lemma check_index_loop_range ne ins rem : forall n j,
  0 <= j -> j + Z.of_nat n <= zlen ins -> j + Z.of_nat n <= zlen rem ->
  check_index_loop true true ne ins rem j n <> OOB /\
  (check_index_loop true true ne ins rem j n = Ok tt ->
   forall i, j <= i < j + Z.of_nat n ->
     (forall u, get ins i = Ok u -> 0 <= u < ne) /\ (forall u, get rem i = Ok u -> 0 <= u < ne)).
Proof.
  induction n as [|n IH]; intros j J BI BR; simpl.
  - split; [discriminate | intros _ i R; lia].
  - destruct (get_in ins j) as [a Ha]; [lia|]. destruct (get_in rem j) as [b Hb]; [lia|].
    rewrite Ha, Hb. simpl.
    destruct ((a <? 0) || (a >=? ne)) eqn:EA; [split; [discriminate | intro H; discriminate]|].
    destruct ((b <? 0) || (b >=? ne)) eqn:EB; [split; [discriminate | intro H; discriminate]|].
    apply orb_false_iff in EA as [A1 A2]. apply orb_false_iff in EB as [B1 B2].
    destruct (IH (j + 1) ltac:(lia) ltac:(lia) ltac:(lia)) as [N R]. split; [exact N|].
    intros H i Ri. destruct (Z.eq_dec i j) as [->|NE].
    + split; intros u Hu; [rewrite Ha in Hu | rewrite Hb in Hu]; inversion Hu; subst; lia.
    + apply (R H i). lia.
Qed.

Theorem guard_implies_in_bounds_check_index ne ins rem edge_col :
  zlen edge_col = ne -> check_index_entry true true ne ins rem edge_col <> OOB.
Proof.
  intro L. unfold check_index_entry.
  destruct ((zlen ins =? ne) && (zlen rem =? ne)) eqn:E; simpl; [|discriminate].
  apply andb_true_iff in E as [E1 E2]. apply Z.eqb_eq in E1. apply Z.eqb_eq in E2.
  pose proof (zlen_nonneg ins) as NN.
  destruct (check_index_loop_range ne ins rem (Z.to_nat ne) 0 ltac:(lia) ltac:(lia) ltac:(lia)) as [N R].
  apply bind_not_OOB; [exact N|]. intros [] H. specialize (R H).
  apply bind_not_OOB.
  - apply read_all_in_range with ne; [exact L|]. apply forall_from_index.
    intros i u Ri G. apply (proj1 (R i ltac:(lia)) u G).
  - intros _ _. apply read_all_in_range with ne; [exact L|]. apply forall_from_index.
    intros i u Ri G. apply (proj2 (R i ltac:(lia)) u G).
Qed.

(* seeded change C09-3: the removal order is no longer tested *)
Theorem check_index_removal_unchecked_mutant_refuted :
  exists ne ins rem edge_col, zlen edge_col = ne /\ check_index_entry true false ne ins rem edge_col = OOB.
Proof. exists 2, [0; 1], [1; 2], [5; 6]. split; vm_compute; reflexivity. Qed.

Example ex_index_ok : check_index_entry true true 2 [1; 0] [0; 1] [5; 6] = Ok tt.
Proof. reflexivity. Qed.
Example ex_index_rejected : check_index_entry true true 2 [0; 1] [1; 2] [5; 6] = Err E_LIBRARY.
Proof. reflexivity. Qed.
Example ex_index_not_indexed : check_index_entry true true 2 [0] [1; 0] [5; 6] = Err E_LIBRARY.
Proof. reflexivity. Qed.
