(* C09 — pair_coalescence_rates with the checks in the repaired order (sample sets validated
   first) never reads nodes_time out of range (finding C09-N2 is the current order). *)
From Coq Require Import List ZArith Bool Lia.
From TskVerif Require Import Base.Common C09.Guards C09.GuardProofs.
Import ListNotations.
Open Scope Z_scope.

Lemma get_cons_succ {A} (a : A) l i : 0 <= i -> get (a :: l) (i + 1) = get l i.
Proof.
  intro H. unfold get. destruct (i + 1 <? 0) eqn:E; [lia|]. destruct (i <? 0) eqn:E2; [lia|].
  replace (Z.to_nat (i + 1)) with (S (Z.to_nat i)) by lia. reflexivity.
Qed.

Lemma get_cons_zero {A} (a : A) l : get (a :: l) 0 = Ok a.
Proof. reflexivity. Qed.

Lemma forall_from_index {A} (Q : A -> Prop) (l : list A) :
  (forall i u, 0 <= i < zlen l -> get l i = Ok u -> Q u) -> Forall Q l.
Proof.
  induction l as [|a r IH]; intro H; constructor.
  - apply (H 0 a); [unfold zlen; simpl; lia | reflexivity].
  - apply IH. intros i u R G. apply (H (i + 1) u).
    + unfold zlen in *. simpl. lia.
    + rewrite get_cons_succ by lia. exact G.
Qed.

Lemma check_sets_inner_range N imap flat : forall size j j',
  check_sets_inner N imap flat j size = Ok j' ->
  j' = j + Z.of_nat size /\ forall i u, j <= i < j' -> get flat i = Ok u -> 0 <= u < N.
Proof.
  induction size as [|k IH]; intros j j' H; simpl in H.
  - inversion H; subst. split; [lia | intros; lia].
  - destruct (get flat j) as [u0| | |] eqn:G; simpl in H; try discriminate.
    destruct ((u0 <? 0) || (u0 >=? N)) eqn:E; [discriminate|]. apply orb_false_iff in E as [E1 E2].
    destruct (get imap u0) as [si| | |]; simpl in H; try discriminate.
    destruct (si =? TSK_NULL); [discriminate|].
    apply IH in H as [H1 H2]. split; [lia|]. intros i u R Gi.
    destruct (Z.eq_dec i j) as [->|NE]; [rewrite G in Gi; inversion Gi; subst; lia | apply (H2 i u); [lia | exact Gi]].
Qed.

Lemma check_sets_outer_range N imap flat : forall sizes j j',
  check_sets_outer N imap flat j sizes = Ok j' ->
  j' = j + sum_sizes sizes /\ forall i u, j <= i < j' -> get flat i = Ok u -> 0 <= u < N.
Proof.
  induction sizes as [|sz rest IH]; intros j j' H; simpl in H.
  - inversion H; subst. simpl. split; [lia | intros; lia].
  - destruct sz as [|k]; [discriminate|].
    destruct (check_sets_inner N imap flat j (S k)) as [j1| | |] eqn:I; simpl in H; try discriminate.
    apply check_sets_inner_range in I as [I1 I2]. apply IH in H as [H1 H2].
    change (sum_sizes (S k :: rest)) with (Z.of_nat (S k) + sum_sizes rest).
    split; [lia|]. intros i u R G.
    destruct (Z_lt_le_dec i j1); [apply (I2 i u); [lia | exact G] | apply (H2 i u); [lia | exact G]].
Qed.

Lemma rates_sample_times_in_range times t0 N flat :
  zlen times = N -> Forall (fun u => 0 <= u < N) flat -> rates_sample_times times t0 flat <> OOB.
Proof.
  intros L F. induction F as [|u r Hu Hr IH]; simpl; [discriminate|].
  destruct (get_in times u) as [t Ht]; [lia|]. rewrite Ht. simpl.
  destruct (negb (t =? t0)); [discriminate | exact IH].
Qed.

Theorem guard_implies_in_bounds_pair_coalescence_rates_repaired N imap times t0 sizes flat :
  zlen imap = N -> zlen times = N -> sum_sizes sizes = zlen flat ->
  pair_coalescence_rates_entry true N imap times t0 sizes flat <> OOB.
Proof.
  intros LI LT LS. unfold pair_coalescence_rates_entry.
  apply bind_not_OOB; [apply guard_implies_in_bounds_check_sample_sets; [assumption | lia]|].
  intros j H. unfold tsk_treeseq_check_sample_sets in H. destruct sizes as [|s0 rest]; [discriminate|].
  apply check_sets_outer_range in H as [H1 H2].
  apply rates_sample_times_in_range with N; [assumption|].
  apply forall_from_index. intros i u R G. apply (H2 i u); [lia | exact G].
Qed.

Example ex_rates_repaired_rejects :
  pair_coalescence_rates_entry true 2 [0; 1] [0; 0] 0 [1%nat] [-1] = Err E_LIBRARY.
Proof. reflexivity. Qed.
Example ex_rates_ok : pair_coalescence_rates_entry true 2 [0; 1] [0; 0] 0 [2%nat] [0; 1] = Ok tt.
Proof. reflexivity. Qed.
