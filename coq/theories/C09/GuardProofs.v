(* C09 — proofs about the guard models of Guards.v: when the guard of an entry point
   passes, its body never performs an out-of-range access ([<> OOB]) — for every
   identifier in Z and every array length; and, for the guards that are wrong in /repo,
   a witness that the faithful model does reach OOB. *)
From Coq Require Import List ZArith Bool Lia.
From TskVerif Require Import Base.Common C09.Guards.
Import ListNotations.
Open Scope Z_scope.

(* ---------------------------------------------------------------- basic facts *)
Lemma get_in {A} (l : list A) i : 0 <= i < zlen l -> exists a, get l i = Ok a.
Proof. intro H. apply get_ok_iff. exact H. Qed.

Lemma get_cases {A} (l : list A) i : (exists a, get l i = Ok a) \/ get l i = OOB.
Proof.
  unfold get. destruct (i <? 0); [right; reflexivity|].
  destruct (nth_error l (Z.to_nat i)); [left; eauto | right; reflexivity].
Qed.

Lemma get_Ok_bounds {A} (l : list A) i a : get l i = Ok a -> 0 <= i < zlen l.
Proof. intro H. apply get_ok_iff. eauto. Qed.

Lemma set_nat_some {A} (l : list A) i a : (i < length l)%nat -> exists l', set_nat l i a = Some l'.
Proof.
  revert i; induction l as [|h t IH]; intros [|i] H; simpl in *; try lia; eauto.
  destruct (IH i) as [t' E]; [lia|]. rewrite E. eauto.
Qed.

Lemma set_in {A} (l : list A) i a : 0 <= i < zlen l -> exists l', set l i a = Ok l' /\ zlen l' = zlen l.
Proof.
  unfold set, zlen. intro H. destruct (i <? 0) eqn:E; [lia|].
  destruct (set_nat_some l (Z.to_nat i) a) as [l' E']; [lia|].
  rewrite E'. exists l'. split; [reflexivity|]. apply set_nat_length in E'. lia.
Qed.

Lemma zlen_alloc {A} n (v : A) : 0 <= n -> zlen (alloc n v) = n.
Proof. intro H. unfold zlen, alloc. rewrite repeat_length. lia. Qed.

Lemma zlen_nonneg {A} (l : list A) : 0 <= zlen l.
Proof. unfold zlen. lia. Qed.

Lemma bind_not_OOB {A B} (r : res A) (f : A -> res B) :
  r <> OOB -> (forall a, r = Ok a -> f a <> OOB) -> bind r f <> OOB.
Proof. destruct r; simpl; intros; try discriminate; auto. Qed.

Ltac caseb E := match goal with |- context [if ?b then _ else _] => destruct b eqn:E end.

(* ---------------------------------------------------------------- 1. Tree accessors *)
Lemma parse_I_as_int_range x : -2147483648 <= parse_I_as_int x < 2147483648.
Proof.
  unfold parse_I_as_int. pose proof (Z.mod_pos_bound x 4294967296 ltac:(lia)).
  destruct (x mod 4294967296 <? 2147483648) eqn:E; lia.
Qed.

Lemma parse_I_as_int_id x : -2147483648 <= x < 2147483648 -> parse_I_as_int x = x.
Proof.
  intro H. unfold parse_I_as_int.
  destruct (Z_lt_le_dec x 0).
  - assert (x mod 4294967296 = x + 4294967296) as H0.
    { symmetry. apply Z.mod_unique with (q := -1); lia. }
    rewrite H0. destruct (x + 4294967296 <? 2147483648) eqn:E; lia.
  - rewrite Z.mod_small by lia. destruct (x <? 2147483648) eqn:E; lia.
Qed.

Lemma guard_implies_in_bounds_tree_array arr N x :
  zlen arr = N + 1 -> Tree_array_get arr N x <> OOB.
Proof.
  intro L. unfold Tree_array_get, Tree_check_bounds. caseb E; [discriminate|].
  apply orb_false_iff in E as [E1 E2].
  destruct (get_in arr (parse_I_as_int x)) as [a Ha]; [lia|]. rewrite Ha. discriminate.
Qed.

Lemma tree_array_accepts_only_range arr N x v :
  Tree_array_get_checked_parse arr N x = Ok v -> 0 <= x <= N.
Proof.
  unfold Tree_array_get_checked_parse, Tree_check_bounds.
  destruct (negb (fits_int32 x)); [discriminate|]. caseb E; [discriminate|].
  apply orb_false_iff in E. lia.
Qed.

Lemma guard_implies_in_bounds_tree_array_checked_parse arr N x :
  zlen arr = N + 1 -> Tree_array_get_checked_parse arr N x <> OOB.
Proof.
  intro L. unfold Tree_array_get_checked_parse, Tree_check_bounds.
  destruct (negb (fits_int32 x)); [discriminate|]. caseb E; [discriminate|].
  apply orb_false_iff in E as [E1 E2].
  destruct (get_in arr x) as [a Ha]; [lia|]. rewrite Ha. discriminate.
Qed.

(* finding C09-N1: a huge identifier is accepted as an alias of a small one *)
Lemma tree_array_huge_id_refuted :
  exists N x v, N < x /\ Tree_array_get (alloc (N + 1) 7) N x = Ok v.
Proof. exists 3, 4294967296, 7. split; [lia | vm_compute; reflexivity]. Qed.

Lemma guard_implies_in_bounds_tsk_tree_array arr N u :
  zlen arr = N + 1 -> tsk_tree_array_get arr N u <> OOB.
Proof.
  intro L. unfold tsk_tree_array_get, tsk_tree_check_node. caseb E; [discriminate|].
  apply orb_false_iff in E as [E1 E2].
  destruct (get_in arr u) as [a Ha]; [lia|]. rewrite Ha. discriminate.
Qed.

Lemma guard_implies_in_bounds_tree_num_samples arr N x :
  zlen arr = N + 1 -> Tree_get_num_samples arr N x <> OOB.
Proof.
  intro L. unfold Tree_get_num_samples. caseb E; [discriminate|].
  apply guard_implies_in_bounds_tsk_tree_array; assumption.
Qed.

Lemma is_sample_not_OOB flags N u : zlen flags = N -> tsk_treeseq_is_sample flags N u <> OOB.
Proof.
  intro L. unfold tsk_treeseq_is_sample. caseb E; [|discriminate].
  apply andb_true_iff in E as [E1 E2].
  destruct (get_in flags u) as [a Ha]; [lia|]. rewrite Ha. simpl. discriminate.
Qed.

Lemma guard_implies_in_bounds_tree_time time N x :
  zlen time = N -> Tree_get_time time N x <> OOB.
Proof.
  intro L. unfold Tree_get_time, tsk_tree_get_time, node_table_get_row_guard. caseb E; [discriminate|].
  caseb E1; [discriminate|]. caseb E2; [discriminate|].
  apply orb_false_iff in E2 as [E3 E4].
  destruct (get_in time (parse_I_as_int x)) as [a Ha]; [lia|]. rewrite Ha. discriminate.
Qed.

Lemma guard_implies_in_bounds_next_sample ns S has x :
  zlen ns = S -> Tree_get_next_sample ns S has x <> OOB.
Proof.
  intro L. unfold Tree_get_next_sample. caseb E; [discriminate|].
  destruct (negb has); [discriminate|].
  apply orb_false_iff in E as [E1 E2].
  destruct (get_in ns (parse_I_as_int x)) as [a Ha]; [lia|]. rewrite Ha. discriminate.
Qed.

(* parent arrays of a tree: N + 1 entries, each NULL or a node id (incl. the virtual root) *)
Definition parents_ok (parent : list Z) (N : Z) : Prop :=
  zlen parent = N + 1 /\ Forall (fun p => -1 <= p <= N) parent.

Lemma parents_ok_get parent N u p : parents_ok parent N -> get parent u = Ok p -> -1 <= p <= N.
Proof.
  intros [L F] G. unfold get in G. destruct (u <? 0); [discriminate|].
  destruct (nth_error parent (Z.to_nat u)) eqn:E; [|discriminate]. inversion G; subst.
  apply nth_error_In in E. rewrite Forall_forall in F. apply F. exact E.
Qed.

Lemma walk_up_not_OOB fuel parent N w stop :
  parents_ok parent N -> -1 <= w <= N -> walk_up fuel parent w stop <> OOB.
Proof.
  intro P. revert w. induction fuel as [|f IH]; intros w R; simpl; [discriminate|].
  caseb E; [discriminate|]. apply orb_false_iff in E as [E1 E2].
  unfold TSK_NULL in *.
  destruct (get_in parent w) as [p Hp]; [destruct P; lia|]. rewrite Hp. simpl.
  apply IH. eapply parents_ok_get; eauto.
Qed.

Lemma guard_implies_in_bounds_is_descendant fuel parent N x y :
  parents_ok parent N -> Tree_is_descendant fuel parent N x y <> OOB.
Proof.
  intro P. unfold Tree_is_descendant, tsk_tree_is_descendant, Tree_check_bounds, tsk_tree_check_node.
  caseb E; [discriminate|]. caseb E0; [discriminate|].
  apply orb_false_iff in E as [E1 E2]. apply orb_false_iff in E0 as [E3 E4].
  caseb E5; [|discriminate].
  apply bind_not_OOB; [apply walk_up_not_OOB with N; [assumption | lia] | intros; discriminate].
Qed.

Lemma guard_implies_in_bounds_tree_depth fuel parent N x :
  parents_ok parent N -> Tree_depth fuel parent N x <> OOB.
Proof.
  intro P. unfold Tree_depth. caseb E; [discriminate|].
  unfold tsk_tree_get_depth, tsk_tree_check_node. caseb E0; [discriminate|].
  apply orb_false_iff in E0 as [E1 E2]. caseb E3; [discriminate|].
  destruct (get_in parent (parse_I_as_int x)) as [p Hp]; [destruct P; lia|]. rewrite Hp. simpl.
  apply bind_not_OOB; [|intros; discriminate].
  apply walk_up_not_OOB with N; [assumption | eapply parents_ok_get; eauto].
Qed.

Lemma guard_implies_in_bounds_depth fuel parent N u :
  parents_ok parent N -> tsk_tree_get_depth fuel parent N u <> OOB.
Proof.
  intro P. unfold tsk_tree_get_depth, tsk_tree_check_node. caseb E; [discriminate|].
  apply orb_false_iff in E as [E1 E2]. caseb E3; [discriminate|].
  destruct (get_in parent u) as [p Hp]; [destruct P; lia|]. rewrite Hp. simpl.
  apply bind_not_OOB; [|intros; discriminate].
  apply walk_up_not_OOB with N; [assumption | eapply parents_ok_get; eauto].
Qed.

(* ---------------------------------------------------------------- 2. id-list loops *)
Lemma mark_ids_strict_not_OOB N unset value ids : forall mark,
  zlen mark = N -> mark_ids true N unset value mark ids <> OOB.
Proof.
  induction ids as [|u rest IH]; intros mark L; simpl; [discriminate|].
  unfold id_guard. caseb E; [discriminate|]. apply orb_false_iff in E as [E1 E2].
  destruct (get_in mark u) as [m Hm]; [lia|]. rewrite Hm. simpl.
  caseb E3; [discriminate|].
  destruct (set_in mark u value) as [mark' [Hs Hl]]; [lia|]. rewrite Hs. simpl.
  apply IH. lia.
Qed.

Lemma mark_ids_strict_length N unset value ids : forall mark mark',
  zlen mark = N -> mark_ids true N unset value mark ids = Ok mark' -> zlen mark' = N.
Proof.
  induction ids as [|u rest IH]; intros mark mark' L; simpl; [intro H; inversion H; subst; auto|].
  unfold id_guard. caseb E; [discriminate|]. apply orb_false_iff in E as [E1 E2].
  destruct (get_in mark u) as [m Hm]; [lia|]. rewrite Hm. simpl.
  caseb E3; [discriminate|].
  destruct (set_in mark u value) as [mk [Hs Hl]]; [lia|]. rewrite Hs. simpl.
  apply IH. lia.
Qed.

(* the F3 defect: with `>` the id num_nodes passes the guard and indexes one past the end *)
Lemma mark_ids_lax_refuted :
  exists N ids, (0 <= N) /\ mark_ids false N TSK_NULL 0 (alloc N TSK_NULL) ids = OOB.
Proof. exists 3, [0; 3]. split; [lia | vm_compute; reflexivity]. Qed.

Lemma guard_implies_in_bounds_ibd_within_repaired N samples :
  0 <= N -> ibd_within_init true N samples <> OOB.
Proof. intro H. apply mark_ids_strict_not_OOB. apply zlen_alloc. exact H. Qed.

Lemma ibd_within_guard_refuted :
  exists N samples, 0 <= N /\ ibd_within_init false N samples = OOB.
Proof. exists 3, [0; 3]. split; [lia | vm_compute; reflexivity]. Qed.

Lemma ibd_between_sets_strict_not_OOB N sets : forall j mark,
  zlen mark = N -> ibd_between_sets true N j mark sets <> OOB.
Proof.
  induction sets as [|s rest IH]; intros j mark L; simpl; [discriminate|].
  apply bind_not_OOB; [apply mark_ids_strict_not_OOB; assumption|].
  intros m Hm. apply IH. eapply mark_ids_strict_length; eauto.
Qed.

Lemma guard_implies_in_bounds_ibd_between_repaired N sets :
  0 <= N -> ibd_between_init true N sets <> OOB.
Proof. intro H. apply ibd_between_sets_strict_not_OOB. apply zlen_alloc. exact H. Qed.

Lemma ibd_between_guard_refuted :
  exists N sets, 0 <= N /\ ibd_between_init false N sets = OOB.
Proof. exists 3, [[0]; [3]]. split; [lia | vm_compute; reflexivity]. Qed.

Lemma guard_implies_in_bounds_link_ancestors_repaired N samples ancestors :
  0 <= N -> link_ancestors_init true true N samples ancestors <> OOB.
Proof.
  intro H. unfold link_ancestors_init.
  apply bind_not_OOB; [apply mark_ids_strict_not_OOB; apply zlen_alloc; exact H|].
  intros s _. apply bind_not_OOB; [apply mark_ids_strict_not_OOB; apply zlen_alloc; exact H|].
  intros; discriminate.
Qed.

Lemma link_ancestors_samples_guard_refuted :
  exists N samples ancestors, 0 <= N /\ link_ancestors_init false true N samples ancestors = OOB.
Proof. exists 3, [3], [0]. split; [lia | vm_compute; reflexivity]. Qed.

Lemma link_ancestors_ancestors_guard_refuted :
  exists N samples ancestors, 0 <= N /\ link_ancestors_init true false N samples ancestors = OOB.
Proof. exists 3, [0], [3]. split; [lia | vm_compute; reflexivity]. Qed.

Lemma guard_implies_in_bounds_simplifier_init N samples :
  0 <= N -> simplifier_init_samples N samples <> OOB.
Proof. intro H. apply mark_ids_strict_not_OOB. apply zlen_alloc. exact H. Qed.

Lemma guard_implies_in_bounds_simplify_entry md N samples :
  0 <= N -> simplify_entry md N samples <> OOB.
Proof. intro H. unfold simplify_entry. destruct md; [discriminate|]. apply guard_implies_in_bounds_simplifier_init. exact H. Qed.

Lemma guard_implies_in_bounds_link_ancestors_entry_repaired md N samples ancestors :
  0 <= N -> link_ancestors_entry true true md N samples ancestors <> OOB.
Proof.
  intro H. unfold link_ancestors_entry. destruct md; [discriminate|].
  destruct (_ || _); [discriminate|]. apply guard_implies_in_bounds_link_ancestors_repaired. exact H.
Qed.

Lemma variant_index_map_not_OOB imp N flags samples : forall j map,
  zlen flags = N -> zlen map = N -> variant_index_map imp N flags j map samples <> OOB.
Proof.
  induction samples as [|u rest IH]; intros j map LF LM; simpl; [discriminate|].
  caseb E; [discriminate|]. apply orb_false_iff in E as [E1 E2].
  destruct (get_in map u) as [m Hm]; [lia|]. rewrite Hm. simpl.
  caseb E3; [discriminate|].
  destruct (get_in flags u) as [f Hf]; [lia|]. rewrite Hf. simpl.
  caseb E4; [discriminate|].
  destruct (set_in map u j) as [map' [Hs Hl]]; [lia|]. rewrite Hs. simpl.
  apply IH; lia.
Qed.

Lemma guard_implies_in_bounds_variant_init imp N flags samples :
  0 <= N -> zlen flags = N -> variant_init_samples imp N flags samples <> OOB.
Proof. intros H L. apply variant_index_map_not_OOB; [assumption | apply zlen_alloc; assumption]. Qed.

Lemma bump_up_not_OOB fuel parent N : forall counts u,
  parents_ok parent N -> zlen counts = N + 1 -> -1 <= u <= N ->
  bump_up fuel parent counts u <> OOB /\
  (forall c', bump_up fuel parent counts u = Ok c' -> zlen c' = N + 1).
Proof.
  induction fuel as [|f IH]; intros counts u P L R; simpl; [split; [discriminate | intros; discriminate]|].
  unfold TSK_NULL. caseb E; [split; [discriminate | intros c' H; inversion H; subst; auto]|].
  destruct (get_in counts u) as [c Hc]; [lia|]. rewrite Hc. simpl.
  destruct (set_in counts u (c + 1)) as [counts' [Hs Hl]]; [lia|]. rewrite Hs. simpl.
  destruct (get_in parent u) as [p Hp]; [destruct P; lia|]. rewrite Hp. simpl.
  apply IH; [assumption | lia | eapply parents_ok_get; eauto].
Qed.

Lemma set_tracked_loop_not_OOB fuel N flags parent samples : forall counts,
  parents_ok parent N -> zlen flags = N -> zlen counts = N + 1 ->
  set_tracked_loop fuel N flags parent counts samples <> OOB.
Proof.
  induction samples as [|u rest IH]; intros counts P LF LC; simpl; [discriminate|].
  caseb E; [discriminate|]. apply orb_false_iff in E as [E1 E2].
  apply bind_not_OOB; [apply is_sample_not_OOB; assumption|]. intros s _.
  destruct (negb s); [discriminate|].
  destruct (get_in counts u) as [c Hc]; [lia|]. rewrite Hc. simpl.
  caseb E3; [discriminate|].
  destruct (bump_up_not_OOB fuel parent N counts u P LC ltac:(lia)) as [B1 B2].
  apply bind_not_OOB; [exact B1|]. intros c' Hc'. apply IH; auto.
Qed.

Lemma guard_implies_in_bounds_tracked_samples fuel N flags parent samples :
  0 <= N -> parents_ok parent N -> zlen flags = N ->
  Tree_init_tracked fuel N flags parent samples <> OOB.
Proof.
  intros H P LF. unfold Tree_init_tracked, tsk_tree_set_tracked_samples.
  destruct (existsb _ samples); [discriminate|].
  destruct (set_in (alloc (N + 1) 0) N (zlen samples)) as [c [Hs Hl]]; [rewrite zlen_alloc; lia|].
  rewrite Hs. simpl. apply set_tracked_loop_not_OOB; auto. rewrite Hl. apply zlen_alloc. lia.
Qed.

(* sample sets *)
Fixpoint sum_sizes (sizes : list nat) : Z :=
  match sizes with [] => 0 | s :: r => Z.of_nat s + sum_sizes r end.

Lemma sum_sizes_nonneg sizes : 0 <= sum_sizes sizes.
Proof. induction sizes; simpl; lia. Qed.

Lemma check_sets_inner_ok N imap flat : forall size j,
  zlen imap = N -> 0 <= j -> j + Z.of_nat size <= zlen flat ->
  check_sets_inner N imap flat j size <> OOB /\
  (forall j', check_sets_inner N imap flat j size = Ok j' -> j' = j + Z.of_nat size).
Proof.
  induction size as [|k IH]; intros j L J B; simpl.
  - split; [discriminate | intros j' H; inversion H; lia].
  - destruct (get_in flat j) as [u Hu]; [lia|]. rewrite Hu. simpl.
    caseb E; [split; [discriminate | intros; discriminate]|]. apply orb_false_iff in E as [E1 E2].
    destruct (get_in imap u) as [si Hsi]; [lia|]. rewrite Hsi. simpl.
    caseb E3; [split; [discriminate | intros; discriminate]|].
    destruct (IH (j + 1) L ltac:(lia) ltac:(lia)) as [A1 A2]. split; [exact A1|].
    intros j' H. apply A2 in H. lia.
Qed.

Lemma check_sets_outer_not_OOB N imap flat : forall sizes j,
  zlen imap = N -> 0 <= j -> j + sum_sizes sizes <= zlen flat ->
  check_sets_outer N imap flat j sizes <> OOB.
Proof.
  induction sizes as [|sz rest IH]; intros j L J B; simpl; [discriminate|].
  destruct sz as [|k]; [discriminate|].
  change (sum_sizes (S k :: rest)) with (Z.of_nat (S k) + sum_sizes rest) in B.
  pose proof (sum_sizes_nonneg rest) as NN.
  destruct (check_sets_inner_ok N imap flat (S k) j L J ltac:(lia)) as [A1 A2].
  apply bind_not_OOB; [exact A1|]. intros j' Hj'. apply A2 in Hj'. apply IH; [assumption | lia | lia].
Qed.

Lemma guard_implies_in_bounds_check_sample_sets N imap sizes flat :
  zlen imap = N -> sum_sizes sizes <= zlen flat ->
  tsk_treeseq_check_sample_sets N imap sizes flat <> OOB.
Proof.
  intros L B. unfold tsk_treeseq_check_sample_sets. destruct sizes; [discriminate|].
  apply check_sets_outer_not_OOB; [assumption | lia | lia].
Qed.

(* finding C09-N2: node times are read before the sample sets are validated *)
Lemma pair_coalescence_rates_refuted :
  exists N imap times sizes flat,
    zlen imap = N /\ zlen times = N /\ sum_sizes sizes = zlen flat /\
    pair_coalescence_rates_entry false N imap times 0 sizes flat = OOB.
Proof.
  exists 2, [0; 1], [0; 0], [1%nat], [-1]. repeat split; vm_compute; reflexivity.
Qed.

(* ---------------------------------------------------------------- 3. table rows *)
Lemma guard_implies_in_bounds_get_row col offset n i :
  zlen col = n -> zlen offset = n + 1 -> table_get_row col offset n i <> OOB.
Proof.
  intros LC LO. unfold table_get_row. caseb E; [discriminate|]. apply orb_false_iff in E as [E1 E2].
  destruct (get_in col i) as [c Hc]; [lia|]. rewrite Hc. simpl.
  destruct (get_in offset i) as [o0 H0]; [lia|]. rewrite H0. simpl.
  destruct (get_in offset (i + 1)) as [o1 H1]; [lia|]. rewrite H1. simpl. discriminate.
Qed.

Lemma guard_implies_in_bounds_py_getitem col offset n i :
  zlen col = n -> zlen offset = n + 1 -> py_table_getitem col offset n i <> OOB.
Proof.
  intros LC LO. unfold py_table_getitem. caseb E; [discriminate|].
  apply guard_implies_in_bounds_get_row; assumption.
Qed.

Lemma guard_implies_in_bounds_extend col offset n ids :
  zlen col = n -> zlen offset = n + 1 -> table_extend col offset n ids <> OOB.
Proof.
  intros LC LO. induction ids as [|i rest IH]; simpl; [discriminate|].
  apply bind_not_OOB; [apply guard_implies_in_bounds_get_row; assumption|]. intros _ _.
  apply bind_not_OOB; [exact IH | intros; discriminate].
Qed.

Lemma keep_rows_loop_not_OOB keep col : forall n j kept,
  0 <= j -> j + Z.of_nat n <= zlen keep -> j + Z.of_nat n <= zlen col ->
  keep_rows_loop keep col j n kept <> OOB.
Proof.
  induction n as [|n IH]; intros j kept J BK BC; simpl; [discriminate|].
  destruct (get_in keep j) as [k Hk]; [lia|]. rewrite Hk. simpl.
  destruct (get_in col j) as [c Hc]; [lia|]. rewrite Hc. simpl.
  apply IH; lia.
Qed.

Lemma guard_implies_in_bounds_keep_rows keep col n :
  zlen col = n -> table_keep_rows true keep col n <> OOB.
Proof.
  intro LC. unfold table_keep_rows. simpl. caseb E; [discriminate|].
  apply negb_false_iff in E. apply Z.eqb_eq in E.
  pose proof (zlen_nonneg col). apply keep_rows_loop_not_OOB; lia.
Qed.

(* without the length check of table_keep_rows (module) the C loop reads past the mask *)
Lemma keep_rows_without_length_check_refuted :
  exists keep col n, zlen col = n /\ table_keep_rows false keep col n = OOB.
Proof. exists [1], [5; 6], 2. split; vm_compute; reflexivity. Qed.

Lemma subset_nodes_not_OOB N col nodes : forall map k,
  zlen col = N -> zlen map = N -> subset_nodes N col map k nodes <> OOB.
Proof.
  induction nodes as [|u rest IH]; intros map k LC LM; simpl; [discriminate|].
  caseb E; [discriminate|]. apply orb_false_iff in E as [E1 E2].
  destruct (get_in col u) as [c Hc]; [lia|]. rewrite Hc. simpl.
  destruct (set_in map u k) as [m [Hs Hl]]; [lia|]. rewrite Hs. simpl. apply IH; lia.
Qed.

Lemma guard_implies_in_bounds_subset N col nodes :
  0 <= N -> zlen col = N -> table_collection_subset N col nodes <> OOB.
Proof. intros H L. apply subset_nodes_not_OOB; [assumption | apply zlen_alloc; assumption]. Qed.

Lemma guard_implies_in_bounds_subset_entry mig N col nodes :
  0 <= N -> zlen col = N -> subset_entry mig N col nodes <> OOB.
Proof.
  intros H L. unfold subset_entry. apply bind_not_OOB; [apply guard_implies_in_bounds_subset; assumption|].
  intros; destruct mig; discriminate.
Qed.

Lemma union_check_map_not_OOB sn scol mapping : forall n k,
  zlen scol = sn -> 0 <= k -> k + Z.of_nat n <= zlen mapping ->
  union_check_map sn scol mapping k n <> OOB.
Proof.
  induction n as [|n IH]; intros k L K B; simpl; [discriminate|].
  destruct (get_in mapping k) as [m Hm]; [lia|]. rewrite Hm. simpl.
  caseb E; [discriminate|]. apply orb_false_iff in E as [E1 E2]. unfold TSK_NULL in *.
  apply bind_not_OOB.
  - caseb E3; [discriminate|]. destruct (get_in scol m) as [c Hc]; [lia|]. rewrite Hc. discriminate.
  - intros _ _. apply IH; lia.
Qed.

Lemma guard_implies_in_bounds_union sn on scol mapping :
  zlen scol = sn -> 0 <= on -> table_collection_union true sn on scol mapping <> OOB.
Proof.
  intros L H. unfold table_collection_union. simpl. caseb E; [discriminate|].
  apply negb_false_iff in E. apply Z.eqb_eq in E. apply union_check_map_not_OOB; lia.
Qed.

Lemma union_without_length_check_refuted :
  exists sn on scol mapping, zlen scol = sn /\ 0 <= on /\ table_collection_union false sn on scol mapping = OOB.
Proof. exists 2, 2, [0; 0], [-1]. repeat split; try lia; vm_compute; reflexivity. Qed.

Lemma read_prefix_not_OOB col : forall n j, 0 <= j -> j + Z.of_nat n <= zlen col -> read_prefix col j n <> OOB.
Proof.
  induction n as [|n IH]; intros j J B; simpl; [discriminate|].
  destruct (get_in col j) as [c Hc]; [lia|]. rewrite Hc. simpl. apply IH; lia.
Qed.

Lemma read_offset_checked so n sl :
  0 <= n -> read_offset true n so sl <> OOB /\ (forall r, read_offset true n so sl = Ok r -> r = n /\ zlen so = n + 1).
Proof.
  intro H. unfold read_offset. destruct (zlen so =? n + 1) eqn:E; simpl.
  - apply Z.eqb_eq in E. destruct (get_in so n) as [l Hl]; [lia|]. rewrite Hl. simpl.
    destruct (l =? sl); (split; [discriminate|]); intros r Hr; inversion Hr; subst; split; lia.
  - split; [discriminate | intros; discriminate].
Qed.

Lemma guard_implies_in_bounds_site_set_columns_repaired position so mo sl ml :
  site_table_set_columns true position so mo sl ml <> OOB.
Proof.
  unfold site_table_set_columns, read_column. simpl. pose proof (zlen_nonneg position) as NN.
  destruct (read_offset_checked so (zlen position) sl NN) as [A1 A2].
  apply bind_not_OOB; [exact A1|]. intros n1 H1. apply A2 in H1 as [-> E].
  destruct (read_offset_checked mo (zlen position) ml NN) as [B1 B2].
  apply bind_not_OOB; [exact B1|]. intros n2 H2. apply B2 in H2 as [-> E1].
  apply bind_not_OOB; [apply read_prefix_not_OOB; lia|]. intros _ _.
  apply bind_not_OOB; [apply read_prefix_not_OOB; lia|]. intros _ _.
  apply bind_not_OOB; [apply read_prefix_not_OOB; lia|]. intros; discriminate.
Qed.

(* finding C09-N6 *)
Lemma site_set_columns_metadata_offset_refuted :
  exists position so mo sl ml, site_table_set_columns false position so mo sl ml = OOB.
Proof. exists [5], [0; 1], [0; 0; 0], 1, 0. vm_compute. reflexivity. Qed.

Lemma guard_implies_in_bounds_two_branch_rows_repaired rows :
  two_branch_row_span true rows <> OOB.
Proof.
  unfold two_branch_row_span. simpl. pose proof (zlen_nonneg rows).
  destruct (zlen rows =? 0) eqn:E; [discriminate|]. apply Z.eqb_neq in E.
  destruct (get_in rows (zlen rows - 1)) as [a Ha]; [lia|]. rewrite Ha. simpl.
  destruct (get_in rows 0) as [b Hb]; [lia|]. rewrite Hb. simpl. discriminate.
Qed.

(* finding C09-N3 *)
Lemma two_branch_rows_empty_refuted : two_branch_row_span false [] = OOB.
Proof. vm_compute. reflexivity. Qed.

(* ---------------------------------------------------------------- 4. positions *)
Lemma seek_guard_nan_refuted_lemma L : seek_guard NaN L = false.
Proof. reflexivity. Qed.

Lemma seek_guard_passes x L :
  seek_guard x L = false -> x = NaN \/ exists z, x = Fin z /\ 0 <= z < L.
Proof.
  unfold seek_guard, fl_ge. destruct x; simpl; intro H; try discriminate; [|left; reflexivity].
  right. exists z. apply orb_false_iff in H as [H1 H2]. split; [reflexivity | lia].
Qed.

Lemma seek_guard_repaired_passes x L :
  seek_guard_repaired x L = false -> exists z, x = Fin z /\ 0 <= z < L.
Proof.
  unfold seek_guard_repaired. destruct x; simpl; intro H; try discriminate.
  exists z. apply negb_false_iff in H. apply andb_true_iff in H as [H1 H2]. split; [reflexivity | lia].
Qed.

Lemma step_index_range fwd T i : 1 <= T -> -1 <= i < T -> -1 <= step_index fwd T i < T.
Proof.
  intros HT R. unfold step_index. destruct fwd.
  - destruct (i =? T - 1) eqn:E; [lia|]. apply Z.eqb_neq in E. lia.
  - destruct (i =? -1) eqn:E; [lia|]. apply Z.eqb_neq in E. lia.
Qed.

(* F4: for NaN the linear seek never finds its tree — for every fuel *)
Lemma seek_loop_nan_never_returns bps T : forall fuel fwd i,
  zlen bps = T + 1 -> 1 <= T -> -1 <= i < T ->
  seek_loop fuel fwd bps T i NaN = Fuel.
Proof.
  induction fuel as [|f IH]; intros fwd i L HT R; simpl; [reflexivity|].
  unfold in_interval. destruct (i =? -1) eqn:E.
  - simpl. apply IH; auto. apply step_index_range; auto.
  - apply Z.eqb_neq in E.
    destruct (get_in bps i) as [l Hl]; [lia|]. rewrite Hl. simpl.
    destruct (get_in bps (i + 1)) as [r Hr]; [lia|]. rewrite Hr. simpl.
    apply IH; auto. apply step_index_range; auto.
Qed.

Lemma tree_seek_nan_hangs bps T i fuel :
  zlen bps = T + 1 -> 1 <= T -> 0 <= i < T ->
  tree_seek false fuel bps T i NaN = Fuel.
Proof.
  intros L HT R. unfold tree_seek.
  destruct (get_in bps T) as [len Hlen]; [lia|]. rewrite Hlen. simpl.
  destruct (i =? -1) eqn:E; [apply Z.eqb_eq in E; lia|].
  apply seek_loop_nan_never_returns; auto. lia.
Qed.

Lemma tree_seek_repaired_rejects_nan bps T i fuel :
  zlen bps = T + 1 -> 0 <= T -> exists c, tree_seek true fuel bps T i NaN = Err c.
Proof.
  intros L HT. unfold tree_seek.
  destruct (get_in bps T) as [len Hlen]; [lia|]. rewrite Hlen. simpl. eauto.
Qed.

Lemma windows_increasing_repaired_sorted w : windows_increasing true w = true -> strictly_increasing w.
Proof.
  induction w as [|a [|b rest] IH]; simpl; auto. intro H. apply andb_true_iff in H as [H1 H2].
  split; [exact H1 | apply IH; exact H2].
Qed.

Lemma check_windows_repaired_sorted L w : check_windows true L w = true -> strictly_increasing w.
Proof.
  unfold check_windows. destruct w as [|w0 [|w1 rest]]; try discriminate.
  intro H. apply andb_true_iff in H as [_ H]. apply windows_increasing_repaired_sorted. exact H.
Qed.

(* finding C09-N4 *)
Lemma windows_guard_nan_refuted_lemma :
  exists L w, check_windows false L w = true /\ ~ strictly_increasing w.
Proof.
  exists 10, [Fin 0; NaN; Fin 10]. split; [vm_compute; reflexivity|].
  simpl. intros [H _]. discriminate.
Qed.

(* ---------------------------------------------------------------- 5. map_mutations *)
Lemma genotypes_scan_ok g : forall n j m,
  0 <= j -> j + Z.of_nat n <= zlen g -> 0 <= m < HARTIGAN_MAX_ALLELES ->
  genotypes_scan g j n m <> OOB /\
  (forall r, genotypes_scan g j n m = Ok r -> 0 <= r < HARTIGAN_MAX_ALLELES).
Proof.
  induction n as [|n IH]; intros j m J B M; simpl.
  - split; [discriminate | intros r H; inversion H; subst; auto].
  - destruct (get_in g j) as [x Hx]; [lia|]. rewrite Hx. simpl.
    caseb E; [split; [discriminate | intros; discriminate]|]. apply orb_false_iff in E as [E1 E2].
    apply IH; lia.
Qed.

Lemma hartigan_pos : 0 < HARTIGAN_MAX_ALLELES.
Proof. vm_compute. reflexivity. Qed.

Lemma guard_implies_in_bounds_map_mutations ns g anc :
  0 <= ns -> map_mutations_entry true ns g anc <> OOB /\
  (forall na, map_mutations_entry true ns g anc = Ok na ->
     1 <= na <= HARTIGAN_MAX_ALLELES /\ forall allele, allele_count_access na allele <> OOB).
Proof.
  intro H. unfold map_mutations_entry. simpl. pose proof hartigan_pos as HP.
  caseb E; [split; [discriminate | intros; discriminate]|].
  apply negb_false_iff in E. apply Z.eqb_eq in E.
  destruct (genotypes_scan_ok g (Z.to_nat ns) 0 0 ltac:(lia) ltac:(lia) ltac:(lia)) as [A1 A2].
  destruct (genotypes_scan g 0 (Z.to_nat ns) 0) as [m| | |] eqn:S; simpl; try (split; [discriminate | intros; discriminate]).
  2: { exfalso. apply A1. reflexivity. }
  specialize (A2 m eq_refl).
  assert (forall na, 1 <= na <= HARTIGAN_MAX_ALLELES -> forall allele, allele_count_access na allele <> OOB) as ACC.
  { intros na R allele. unfold allele_count_access. caseb E1; [|discriminate].
    apply andb_true_iff in E1 as [E2 E3].
    destruct (get_in (alloc HARTIGAN_MAX_ALLELES 0) allele) as [a Ha]; [rewrite zlen_alloc; lia|].
    rewrite Ha. discriminate. }
  destruct (forallb _ _); [split; [discriminate | intros; discriminate]|].
  destruct anc as [a|].
  - caseb E1; [split; [discriminate | intros; discriminate]|]. apply orb_false_iff in E1 as [E2 E3].
    split; [discriminate|]. intros na Hna. inversion Hna; subst.
    assert (1 <= Z.max (m + 1) (a + 1) <= HARTIGAN_MAX_ALLELES) by lia. split; [assumption | apply ACC; assumption].
  - split; [discriminate|]. intros na Hna. inversion Hna; subst.
    assert (1 <= m + 1 <= HARTIGAN_MAX_ALLELES) by lia. split; [assumption | apply ACC; assumption].
Qed.

Lemma map_mutations_without_length_check_refuted :
  exists ns g, 0 <= ns /\ map_mutations_entry false ns g None = OOB.
Proof. exists 2, [0]. split; [lia | vm_compute; reflexivity]. Qed.

(* ---------------------------------------------------------------- non-vacuity *)
Example ex_tree_array_ok : Tree_array_get [5; 6; 7; -1] 3 3 = Ok (-1).          (* virtual root *)
Proof. reflexivity. Qed.
Example ex_tree_array_raise : Tree_array_get [5; 6; 7; -1] 3 4 = Err E_VALUE.
Proof. reflexivity. Qed.
Example ex_ibd_within_ok : is_ok (ibd_within_init true 3 [0; 2]) = true.
Proof. reflexivity. Qed.
Example ex_ibd_within_repaired_rejects : ibd_within_init true 3 [0; 3] = Err E_LIBRARY.
Proof. reflexivity. Qed.
Example ex_ibd_between_dup : ibd_between_init true 3 [[0]; [0]] = Err E_LIBRARY.
Proof. reflexivity. Qed.
Example ex_variant_nonsample : variant_init_samples false 3 [1; 1; 0] [2] = Err E_LIBRARY.
Proof. reflexivity. Qed.
Example ex_tracked : is_ok (Tree_init_tracked 5 3 [1; 1; 0] [2; 2; -1; -1] [0; 1]) = true.
Proof. reflexivity. Qed.
Example ex_check_sets : tsk_treeseq_check_sample_sets 3 [0; 1; -1] [1%nat; 1%nat] [0; 1] = Ok 2.
Proof. reflexivity. Qed.
Example ex_get_row : table_get_row [7; 8] [0; 2; 4] 2 1 = Ok (8, 2, 4).
Proof. reflexivity. Qed.
Example ex_keep_rows : table_keep_rows true [1; 0] [5; 6] 2 = Ok 1.
Proof. reflexivity. Qed.
Example ex_union : is_ok (table_collection_union true 2 2 [0; 0] [-1; 1]) = true.
Proof. reflexivity. Qed.
Example ex_site_cols : site_table_set_columns true [5; 6] [0; 1; 2] [0; 0; 0] 2 0 = Ok 2.
Proof. reflexivity. Qed.
Example ex_site_cols_bad_encoding : site_table_set_columns true [5; 6] [0; 1; 2] [0; 0; 1] 2 0 = Err E_VALUE.
Proof. reflexivity. Qed.
Example ex_site_cols_truncates : site_table_set_columns false [5; 6] [0; 1; 2] [0; 0] 2 0 = Ok 1.
Proof. reflexivity. Qed.
Example ex_seek_finite : tree_seek false 5 [0; 4; 10] 2 0 (Fin 7) = Ok 1.
Proof. reflexivity. Qed.
Example ex_seek_nan_null : tree_seek false 5 [0; 4; 10] 2 (-1) NaN = Ok 0.
Proof. reflexivity. Qed.
Example ex_seek_nan_hang : tree_seek false 50 [0; 4; 10] 2 0 NaN = Fuel.
Proof. reflexivity. Qed.
Example ex_map_mutations : map_mutations_entry true 3 [0; 1; -1] (Some 2) = Ok 3.
Proof. vm_compute. reflexivity. Qed.
Example ex_map_mutations_bad : map_mutations_entry true 3 [0; 64; 0] None = Err E_LIBRARY.
Proof. vm_compute. reflexivity. Qed.
Example ex_is_descendant : Tree_is_descendant 5 [2; 2; -1; -1] 3 0 2 = Ok true.
Proof. reflexivity. Qed.
