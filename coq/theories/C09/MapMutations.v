(* C09 — the `transitions` buffer of tsk_tree_map_mutations (c/tskit/trees.c l.7238) has
   room for num_samples entries ("The largest possible number of transitions is one over
   every sample") and is written without a bounds check (l.7329-7333).  This file models
   the Hartigan pass of that function on a rose tree and proves the claim:

       number of transitions  <=  number of sample nodes in the tree,

   for every tree shape (unary nodes, polytomies, internal samples, missing data, several
   roots under the virtual root) and every choice of a fixed ancestral state. *)
From Coq Require Import List Arith Lia Bool.
Import ListNotations.

Inductive geno := NotSample | Missing | Geno (g : nat).
Inductive tree := Node (s : geno) (cs : list tree).

Lemma tree_ind2 (P : tree -> Prop) :
  (forall g cs, Forall P cs -> P (Node g cs)) -> forall t, P t.
Proof.
  intro H. fix IH 1. intros [g cs]. apply H.
  induction cs as [|c r IHr]; constructor; [apply IH | exact IHr].
Qed.

Section Hartigan.
Variable K : nat.                     (* num_alleles; the C code keeps 1 <= K <= 64 *)
Hypothesis Kpos : 1 <= K.

Definition countb (fs : list (nat -> bool)) (a : nat) : nat := length (filter (fun f => f a) fs).
Definition maxcount (fs : list (nat -> bool)) : nat := list_max (map (countb fs) (seq 0 K)).

(* optimal_set[u] after the postorder pass (l.7289-7309); a sample keeps the set fixed by
   its genotype (all bits for missing data) *)
Fixpoint opt (t : tree) : nat -> bool :=
  match t with
  | Node NotSample cs =>
      let fs := map opt cs in fun a => (a <? K) && (countb fs a =? maxcount fs)
  | Node Missing _ => fun _ => true
  | Node (Geno g) _ => fun a => a =? g
  end.

(* get_smallest_set_bit *)
Definition pick (f : nat -> bool) : nat :=
  match find f (seq 0 K) with Some a => a | None => 0 end.

(* the preorder pass (l.7319-7340): number of entries written to `transitions` below a
   node that is entered with state s *)
Fixpoint trans (s : nat) (t : tree) : nat :=
  match t with
  | Node g cs =>
      let o := opt (Node g cs) in
      if o s then list_sum (map (trans s) cs)
      else 1 + list_sum (map (trans (pick o)) cs)
  end.

Fixpoint samples (t : tree) : nat :=
  match t with
  | Node g cs => (match g with NotSample => 0 | _ => 1 end) + list_sum (map samples cs)
  end.

(* every genotype is below num_alleles (l.7263: num_alleles = max genotype + 1) *)
Fixpoint wfb (t : tree) : bool :=
  match t with
  | Node g cs => (match g with Geno x => x <? K | _ => true end) && forallb wfb cs
  end.

Definition cnt (a : nat) (cs : list tree) : nat := length (filter (fun c => opt c a) cs).
Definition gpos (a : nat) (cs : list tree) : nat :=
  length (filter (fun c => opt c a && (0 <? samples c)) cs).
Definition zer (cs : list tree) : nat := length (filter (fun c => samples c =? 0) cs).

Lemma countb_cnt a cs : countb (map opt cs) a = cnt a cs.
Proof.
  unfold countb, cnt. induction cs as [|c r IH]; simpl; [reflexivity|].
  destruct (opt c a); simpl; rewrite IH; reflexivity.
Qed.

Lemma list_max_in l : l <> [] -> In (list_max l) l.
Proof.
  induction l as [|a r IH]; [congruence|]. intros _. simpl.
  destruct r as [|b r'].
  - simpl. left. lia.
  - destruct (Nat.max_dec a (list_max (b :: r'))) as [E|E]; rewrite E.
    + left; reflexivity.
    + right. apply IH. congruence.
Qed.

Lemma countb_le_max fs a : a < K -> countb fs a <= maxcount fs.
Proof.
  intro H. unfold maxcount.
  assert (Forall (fun k => k <= list_max (map (countb fs) (seq 0 K))) (map (countb fs) (seq 0 K))) as F
    by (apply list_max_le; lia).
  rewrite Forall_forall in F. apply F. apply in_map. apply in_seq. lia.
Qed.

Lemma max_attained fs : exists a, a < K /\ countb fs a = maxcount fs.
Proof.
  unfold maxcount.
  assert (map (countb fs) (seq 0 K) <> []) as NE.
  { destruct K; [lia|]. simpl. congruence. }
  apply list_max_in in NE. apply in_map_iff in NE as [a [E I]]. apply in_seq in I.
  exists a. split; [lia | exact E].
Qed.

Lemma pick_spec f : (exists a, a < K /\ f a = true) -> f (pick f) = true /\ pick f < K.
Proof.
  intros [a [A1 A2]]. unfold pick. destruct (find f (seq 0 K)) as [b|] eqn:E.
  - apply find_some in E as [I E]. apply in_seq in I. split; [exact E | lia].
  - exfalso. eapply find_none in E; [|apply in_seq; split; [apply Nat.le_0_l | simpl; exact A1]]. congruence.
Qed.

(* B: the optimal set has a member below K *)
Lemma opt_nonempty t : wfb t = true -> exists a, a < K /\ opt t a = true.
Proof.
  destruct t as [g cs]. simpl. intro W. apply andb_true_iff in W as [W1 W2].
  destruct g as [| |x].
  - destruct (max_attained (map opt cs)) as [a [A1 A2]]. exists a. split; [exact A1|].
    apply andb_true_iff. split; [apply Nat.ltb_lt; exact A1 | apply Nat.eqb_eq; exact A2].
  - exists 0. split; [lia | reflexivity].
  - exists x. apply Nat.ltb_lt in W1. split; [exact W1 | apply Nat.eqb_refl].
Qed.

Lemma list_sum_zero l : list_sum l = 0 -> Forall (fun x => x = 0) l.
Proof. induction l as [|a r IH]; simpl; intro H; constructor; [lia | apply IH; lia]. Qed.

(* A: a subtree without samples carries no information: every allele below K is optimal *)
Lemma opt_full t : samples t = 0 -> forall a, a < K -> opt t a = true.
Proof.
  induction t as [g cs IH] using tree_ind2. intros S a A.
  destruct g; simpl in S; try lia. simpl.
  apply list_sum_zero in S. rewrite Forall_map in S.
  assert (forall b, b < K -> countb (map opt cs) b = length cs) as ALL.
  { intros b B. rewrite countb_cnt. unfold cnt. clear A a.
    induction cs as [|c r IHr]; simpl; [reflexivity|].
    inversion IH; subst. inversion S; subst. rewrite (H1 H3 b B). simpl. f_equal. apply IHr; assumption. }
  apply andb_true_iff. split; [apply Nat.ltb_lt; exact A|]. apply Nat.eqb_eq.
  destruct (max_attained (map opt cs)) as [m [M1 M2]].
  rewrite <- M2. rewrite (ALL a A), (ALL m M1). reflexivity.
Qed.

Lemma cnt_le_gpos_zer a cs : cnt a cs <= gpos a cs + zer cs.
Proof.
  unfold cnt, gpos, zer. induction cs as [|c r IH]; simpl; [lia|].
  destruct (opt c a); simpl.
  - destruct (samples c) eqn:E; simpl; lia.
  - destruct (samples c =? 0); simpl; lia.
Qed.

Lemma cnt_ge_zer_plus b cs c1 :
  b < K -> In c1 cs -> 0 < samples c1 -> opt c1 b = true -> zer cs + 1 <= cnt b cs.
Proof.
  intros B I S O. unfold zer, cnt. induction cs as [|c r IH]; [contradiction|]. simpl.
  destruct I as [E|I].
  - subst c. rewrite O. destruct (samples c1 =? 0) eqn:Z; [apply Nat.eqb_eq in Z; lia|]. simpl.
    assert (length (filter (fun c => samples c =? 0) r) <= length (filter (fun c => opt c b) r)) as LE.
    { clear IH. induction r as [|d r' IHr]; simpl; [lia|].
      destruct (samples d =? 0) eqn:Zd; simpl.
      - apply Nat.eqb_eq in Zd. rewrite (opt_full d Zd b B). simpl. lia.
      - destruct (opt d b); simpl; lia. }
    lia.
  - specialize (IH I). destruct (samples c =? 0) eqn:Z; simpl.
    + apply Nat.eqb_eq in Z. rewrite (opt_full c Z b B). simpl. lia.
    + destruct (opt c b); simpl; lia.
Qed.

Lemma exists_positive cs : 0 < list_sum (map samples cs) -> exists c, In c cs /\ 0 < samples c.
Proof.
  induction cs as [|c r IH]; simpl; [lia|]. intro H.
  destruct (samples c) eqn:E.
  - destruct IH as [d [I P]]; [lia|]. exists d. split; [right; exact I | exact P].
  - exists c. split; [left; reflexivity | lia].
Qed.

(* C: if the children carry a sample, an allele with maximal count is optimal for a child
   that carries a sample *)
Lemma gpos_positive a cs :
  forallb wfb cs = true -> 0 < list_sum (map samples cs) -> a < K ->
  countb (map opt cs) a = maxcount (map opt cs) -> 1 <= gpos a cs.
Proof.
  intros W S A M.
  destruct (exists_positive cs S) as [c1 [I P]].
  assert (wfb c1 = true) as W1 by (rewrite forallb_forall in W; apply W; exact I).
  destruct (opt_nonempty c1 W1) as [b [B O]].
  pose proof (cnt_ge_zer_plus b cs c1 B I P O) as G.
  pose proof (countb_le_max (map opt cs) b B) as LE. rewrite countb_cnt in LE.
  pose proof (cnt_le_gpos_zer a cs) as U. rewrite countb_cnt in M. lia.
Qed.

Definition P (t : tree) : Prop :=
  wfb t = true -> forall s, s < K ->
  trans s t + (if opt t s && (0 <? samples t) then 1 else 0) <= samples t.

Lemma sum_children s cs :
  Forall P cs -> forallb wfb cs = true -> s < K ->
  list_sum (map (trans s) cs) + gpos s cs <= list_sum (map samples cs).
Proof.
  unfold gpos. induction cs as [|c r IH]; simpl; intros F W S; [lia|].
  inversion F; subst. apply andb_true_iff in W as [W1 W2].
  specialize (IH H2 W2 S). specialize (H1 W1 s S).
  destruct (opt c s && (0 <? samples c)); simpl in *; lia.
Qed.

Lemma trans_eq s g cs :
  trans s (Node g cs) =
  if opt (Node g cs) s then list_sum (map (trans s) cs)
  else 1 + list_sum (map (trans (pick (opt (Node g cs)))) cs).
Proof. reflexivity. Qed.

Lemma samples_eq g cs :
  samples (Node g cs) = (match g with NotSample => 0 | _ => 1 end) + list_sum (map samples cs).
Proof. reflexivity. Qed.

Lemma opt_notsample cs a :
  opt (Node NotSample cs) a = (a <? K) && (countb (map opt cs) a =? maxcount (map opt cs)).
Proof. reflexivity. Qed.

Lemma transitions_le_samples_aux t : P t.
Proof.
  induction t as [g cs IH] using tree_ind2. unfold P. intros W s S.
  pose proof W as W0. simpl in W. apply andb_true_iff in W as [Wg Wc].
  rewrite trans_eq, samples_eq.
  destruct g as [| |x].
  - (* not a sample *)
    destruct (opt (Node NotSample cs) s) eqn:O.
    + pose proof (sum_children s cs IH Wc S) as L.
      destruct (0 <? 0 + list_sum (map samples cs)) eqn:Z; cbn [andb]; [|lia].
      apply Nat.ltb_lt in Z. rewrite opt_notsample in O. apply andb_true_iff in O as [_ O].
      apply Nat.eqb_eq in O.
      pose proof (gpos_positive s cs Wc ltac:(lia) S O). lia.
    + cbn [andb].
      destruct (opt_nonempty (Node NotSample cs) W0) as [a [A1 A2]].
      destruct (pick_spec (opt (Node NotSample cs)) (ex_intro _ a (conj A1 A2))) as [Q1 Q2].
      destruct (Nat.eq_dec (list_sum (map samples cs)) 0) as [E|E].
      * exfalso. assert (samples (Node NotSample cs) = 0) as E' by (rewrite samples_eq; lia).
        rewrite (opt_full _ E' s S) in O. discriminate.
      * pose proof (sum_children (pick (opt (Node NotSample cs))) cs IH Wc Q2) as L.
        rewrite opt_notsample in Q1. apply andb_true_iff in Q1 as [_ Q1]. apply Nat.eqb_eq in Q1.
        pose proof (gpos_positive _ cs Wc ltac:(lia) Q2 Q1). lia.
  - (* sample with missing data: every state is optimal *)
    change (opt (Node Missing cs) s) with true. cbn [andb].
    pose proof (sum_children s cs IH Wc S) as L.
    destruct (0 <? 1 + list_sum (map samples cs)); lia.
  - (* sample with genotype x *)
    change (opt (Node (Geno x) cs)) with (fun a => a =? x). cbv beta. apply Nat.ltb_lt in Wg.
    destruct (s =? x) eqn:E; cbn [andb].
    + pose proof (sum_children s cs IH Wc S) as L.
      destruct (0 <? 1 + list_sum (map samples cs)); lia.
    + destruct (pick_spec (fun a => a =? x) (ex_intro _ x (conj Wg (Nat.eqb_refl x)))) as [Q1 Q2].
      pose proof (sum_children (pick (fun a => a =? x)) cs IH Wc Q2) as L. lia.
Qed.

(* the virtual root: a non-sample node over all roots.  With a fixed ancestral state its
   optimal set is overwritten with all bits (l.7313) and the walk starts in that state;
   otherwise the walk starts in the smallest optimal state (l.7311). *)
Definition transitions_written (fixed_ancestral : option nat) (roots : list tree) : nat :=
  let s := match fixed_ancestral with Some a => a | None => pick (opt (Node NotSample roots)) end in
  list_sum (map (trans s) roots).

Theorem transitions_le_samples fixed roots :
  forallb wfb roots = true ->
  (match fixed with Some a => a < K | None => True end) ->
  transitions_written fixed roots <= list_sum (map samples roots).
Proof.
  intros W A. unfold transitions_written.
  assert (Forall P roots) as F by (apply Forall_forall; intros; apply transitions_le_samples_aux).
  assert (match fixed with Some a => a | None => pick (opt (Node NotSample roots)) end < K) as S.
  { destruct fixed as [a|]; [exact A|].
    assert (wfb (Node NotSample roots) = true) as W0 by (simpl; exact W).
    destruct (opt_nonempty _ W0) as [a [A1 A2]].
    apply (pick_spec (opt (Node NotSample roots)) (ex_intro _ a (conj A1 A2))). }
  pose proof (sum_children _ roots F W S). lia.
Qed.
End Hartigan.

(* non-vacuity: three isolated samples with genotypes 0, 1, 1 and ancestral state fixed to 2
   write three transitions — the bound is attained *)
Example ex_bound_attained :
  transitions_written 3 (Some 2) [Node (Geno 0) []; Node (Geno 1) []; Node (Geno 1) []] = 3.
Proof. reflexivity. Qed.
Example ex_internal_sample :
  transitions_written 2 None [Node NotSample [Node (Geno 0) [Node (Geno 1) []]; Node Missing []; Node NotSample []]] = 1.
Proof. reflexivity. Qed.
