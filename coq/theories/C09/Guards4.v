(* C09 — guard models, fourth tier: `capacity >= writes` statements for scratch buffers and
   the validation / use pairs behind the round-4 seeded changes.  Executable definitions only. *)
From Coq Require Import List ZArith Bool Lia.
From TskVerif Require Import Base.Common C09.Guards C09.Guards2.
Import ListNotations.
Open Scope Z_scope.

(* ------------------------------------------------------------------------------------ *)
(* c/tskit/tables.c tsk_individual_table_keep_rows (l.1845-1905) + subset_remap_ragged_id_column
   (l.893-918): for every KEPT row the parents are validated (`pk != TSK_NULL` -> in range and
   id_map[pk] != TSK_NULL), then every non-NULL parent of every kept row is replaced by
   id_map[parent].  id_map has num_rows elements.  [break_on_null = true] is the seeded change
   C09-7: the first TSK_NULL ends the validation of the row (`break` instead of `continue`). *)
Fixpoint validate_parents (break_on_null : bool) (N : Z) (id_map : list Z) (ps : list Z) : res unit :=
  match ps with
  | [] => Ok tt
  | pk :: r =>
      if pk =? TSK_NULL then (if break_on_null then Ok tt else validate_parents break_on_null N id_map r)
      else if (pk <? 0) || (pk >=? N) then Err E_LIBRARY
      else do m <- get id_map pk;
           if m =? TSK_NULL then Err E_LIBRARY else validate_parents break_on_null N id_map r
  end.

Fixpoint remap_parents (id_map : list Z) (ps : list Z) : res (list Z) :=
  match ps with
  | [] => Ok []
  | di :: r =>
      do d <- (if di =? TSK_NULL then Ok TSK_NULL
               else if (di <? 0) || (di >=? zlen id_map) then OOB else get id_map di);
      do r' <- remap_parents id_map r;
      Ok (d :: r')
  end.

Fixpoint validate_rows (b : bool) (N : Z) (id_map : list Z) (rows : list (bool * list Z)) : res unit :=
  match rows with
  | [] => Ok tt
  | (keep, ps) :: r =>
      do _ <- (if keep then validate_parents b N id_map ps else Ok tt);
      validate_rows b N id_map r
  end.

Fixpoint remap_rows (id_map : list Z) (rows : list (bool * list Z)) : res (list (list Z)) :=
  match rows with
  | [] => Ok []
  | (keep, ps) :: r =>
      if keep then (do p <- remap_parents id_map ps; do r' <- remap_rows id_map r; Ok (p :: r'))
      else remap_rows id_map r
  end.

Definition individual_keep_rows (break_on_null : bool) (id_map : list Z) (rows : list (bool * list Z))
  : res (list (list Z)) :=
  do _ <- validate_rows break_on_null (zlen id_map) id_map rows;
  remap_rows id_map rows.

(* ------------------------------------------------------------------------------------ *)
(* c/tskit/trees.c tsk_treeseq_two_site_count_stat (l.2532-2540) + get_site_row_col_indices
   (l.2379-2422): the sorted, duplicate-free UNION of the row and column site lists is written
   into the scratch array `sites`.  [capacity] is the number of elements allocated for it:
   num_sites (the code in /repo), n_rows + n_cols (also sufficient), max(n_rows, n_cols) (the
   seeded change C09-8: too small whenever the two lists differ). *)
Fixpoint merge_sites (fuel : nat) (rows cols : list Z) (sites : list Z) (s : Z) : res (list Z * Z) :=
  match fuel with
  | O => match rows, cols with [], [] => Ok (sites, s) | _, _ => Fuel end
  | S f =>
      match rows, cols with
      | [], [] => Ok (sites, s)
      | r :: rs, [] => do b <- set sites s r; merge_sites f rs [] b (s + 1)
      | [], c :: cs => do b <- set sites s c; merge_sites f [] cs b (s + 1)
      | r :: rs, c :: cs =>
          if r <? c then (do b <- set sites s r; merge_sites f rs cols b (s + 1))
          else if c <? r then (do b <- set sites s c; merge_sites f rows cs b (s + 1))
          else (do b <- set sites s r; merge_sites f rs cs b (s + 1))
      end
  end.

Definition two_site_scratch (capacity : Z) (rows cols : list Z) : res (list Z * Z) :=
  merge_sites (length rows + length cols) rows cols (alloc capacity 0) 0.

(* strictly increasing with all elements in [lo, n): what check_sites establishes (lo = 0) *)
Fixpoint incr (lo : Z) (l : list Z) (n : Z) : Prop :=
  match l with [] => True | x :: r => lo <= x < n /\ incr (x + 1) r n end.

(* ------------------------------------------------------------------------------------ *)
(* c/tskit/genotypes.c variant_init_samples_and_index_map with the bound test placed only inside
   the `!impute_missing` block (seeded change C09-6); [guard_inside = false] is the code in /repo
   (= Guards.variant_index_map) *)
Fixpoint variant_index_map_v (guard_inside impute_missing : bool) (num_nodes : Z) (flags : list Z) (j : Z)
         (map : list Z) (samples : list Z) : res (list Z) :=
  match samples with
  | [] => Ok map
  | u :: rest =>
      let bad := (u <? 0) || (u >=? num_nodes) in
      if (if guard_inside then negb impute_missing && bad else bad) then Err E_LIBRARY else
      if (u <? 0) || (u >=? zlen map) then OOB else
      do m <- get map u;
      if negb (m =? TSK_NULL) then Err E_LIBRARY else
      do f <- (if impute_missing then Ok 1 else get flags u);
      if negb impute_missing && negb (Z.odd f) then Err E_LIBRARY else
      do map' <- set map u j;
      variant_index_map_v guard_inside impute_missing num_nodes flags (j + 1) map' rest
  end.

(* tsk_variant_init (l.150-230): samples (num_samples elements) are memcpy'd into alt_samples
   (num_samples_alloc elements), genotypes has num_samples_alloc elements and is written once
   per sample: capacity >= writes iff num_samples <= num_samples_alloc *)
Definition variant_copy_samples (num_samples_alloc : Z) (samples : list Z) : res (list Z) :=
  (fix go (buf : list Z) (k : Z) (l : list Z) : res (list Z) :=
     match l with [] => Ok buf | u :: r => do b <- set buf k u; go b (k + 1) r end)
  (alloc num_samples_alloc 0) 0 samples.

(* ------------------------------------------------------------------------------------ *)
(* c/tskit/tables.c tsk_table_collection_copy (l.11583-11590) + tsk_table_collection_set_indexes
   (l.11382-11401): when the guard passes, edges.num_rows ids are memcpy'd out of each of the two
   index arrays, which hold indexes.num_edges ids (the count at the time the index was built).
   tsk_table_collection_has_index (l.11422-11428) = both pointers non-NULL AND
   indexes.num_edges == edges.num_rows — the only protection against a STALE index (rows appended
   to / removed from the edge table after build_index).  [guard_compares_counts = false] is the
   seeded change C09-9 (pointers only). *)
Definition copy_indexes (guard_compares_counts : bool) (index_num_edges edges_num_rows : Z) : res unit :=
  let ins := alloc index_num_edges 0 in
  let rem := alloc index_num_edges 0 in
  if guard_compares_counts && negb (index_num_edges =? edges_num_rows) then Ok tt (* not carried over *) else
  do _ <- read_prefix ins 0 (Z.to_nat edges_num_rows);
  read_prefix rem 0 (Z.to_nat edges_num_rows).

(* ------------------------------------------------------------------------------------ *)
(* c/tskit/tables.c tsk_mutation_table_keep_rows (l.4830-4880) + subset_remap_id_column: the
   parent of every KEPT row is validated (`pj != TSK_NULL` -> `pj < 0 || pj >= num_rows` error,
   id_map[pj] == TSK_NULL error) and then remapped (`p != TSK_NULL` -> id_map[p]).
   [strict = false] is the seeded change C09-11: `if (pj >= 0) { if (pj >= num_rows) error }`,
   which treats every negative value as "no parent" although the remap step tests != TSK_NULL. *)
Definition validate_parent_scalar (strict : bool) (N : Z) (id_map : list Z) (pj : Z) : res unit :=
  if strict then validate_parents false N id_map [pj]
  else if pj >=? 0 then
         (if pj >=? N then Err E_LIBRARY else
          do m <- get id_map pj; if m =? TSK_NULL then Err E_LIBRARY else Ok tt)
       else Ok tt.

Fixpoint validate_scalar_rows (strict : bool) (N : Z) (id_map : list Z) (rows : list (bool * Z)) : res unit :=
  match rows with
  | [] => Ok tt
  | (keep, pj) :: r =>
      do _ <- (if keep then validate_parent_scalar strict N id_map pj else Ok tt);
      validate_scalar_rows strict N id_map r
  end.

Definition mutation_keep_rows (strict : bool) (id_map : list Z) (rows : list (bool * Z)) : res (list (list Z)) :=
  do _ <- validate_scalar_rows strict (zlen id_map) id_map rows;
  remap_rows id_map (map (fun kr => (fst kr, [snd kr])) rows).

(* c/tskit/tables.c tsk_table_collection_deduplicate_sites (l.12440-12530): after the integrity
   check, site_id_map (one entry per site of the ORIGINAL table) is indexed by every
   mutations.site[j] — only when at least one site was removed.  [full_check = true] is the
   check in /repo (tsk_table_collection_check_integrity: every mutation's site in range);
   [false] is the seeded change C09-12 (site table checked only). *)
Definition deduplicate_sites_entry (full_check : bool) (has_duplicates : bool) (num_sites : Z)
           (mutation_site : list Z) : res unit :=
  (* l.12453: `if (self->sites.num_rows == 0) return 0;` comes BEFORE the integrity check: with no
     sites nothing is validated and nothing is indexed (site_id_map is never allocated) *)
  if num_sites =? 0 then Ok tt else
  if full_check && negb (ids_in_range num_sites mutation_site) then Err E_LIBRARY else
  if has_duplicates then read_all (alloc num_sites 0) mutation_site else Ok tt.
