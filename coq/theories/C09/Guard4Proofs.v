From Coq Require Import List ZArith Bool Lia.
From TskVerif Require Import Base.Common C09.Guards C09.GuardProofs C09.Guards2 C09.Guard2Proofs C09.Guards4.
Import ListNotations.
Open Scope Z_scope.

(* ---- individuals keep_rows ---- *)
Definition parents_valid (N : Z) (ps : list Z) : Prop := Forall (fun p => p = TSK_NULL \/ 0 <= p < N) ps.

Lemma validate_parents_valid N id_map : forall ps,
  validate_parents false N id_map ps = Ok tt -> parents_valid N ps.
Proof.
  induction ps as [|pk r IH]; intro H; [constructor|]. simpl in H.
  destruct (pk =? TSK_NULL) eqn:E.
  - apply Z.eqb_eq in E. constructor; [left; exact E | apply IH; exact H].
  - destruct ((pk <? 0) || (pk >=? N)) eqn:G; [discriminate|]. apply orb_false_iff in G as [G1 G2].
    destruct (get id_map pk); simpl in H; try discriminate.
    destruct (a =? TSK_NULL); [discriminate|].
    constructor; [right; lia | apply IH; exact H].
Qed.

Lemma validate_parents_not_OOB b N id_map : zlen id_map = N -> forall ps, validate_parents b N id_map ps <> OOB.
Proof.
  intros L. induction ps as [|pk r IH]; simpl; [discriminate|].
  destruct (pk =? TSK_NULL); [destruct b; [discriminate | exact IH]|].
  destruct ((pk <? 0) || (pk >=? N)) eqn:G; [discriminate|]. apply orb_false_iff in G as [G1 G2].
  destruct (get_in id_map pk) as [m Hm]; [lia|]. rewrite Hm. simpl. destruct (m =? TSK_NULL); [discriminate | exact IH].
Qed.

Lemma remap_parents_valid id_map : forall ps, parents_valid (zlen id_map) ps -> remap_parents id_map ps <> OOB.
Proof.
  induction ps as [|di r IH]; intro V; simpl; [discriminate|].
  pose proof (Forall_inv V) as H0. pose proof (Forall_inv_tail V) as H1. simpl in H0.
  apply bind_not_OOB.
  - destruct (di =? TSK_NULL) eqn:E; [discriminate|]. apply Z.eqb_neq in E.
    destruct H0 as [H0|H0]; [contradiction|].
    destruct ((di <? 0) || (di >=? zlen id_map)) eqn:G.
    { apply orb_true_iff in G as [G|G]; [apply Z.ltb_lt in G | apply Z.geb_le in G]; lia. }
    destruct (get_in id_map di) as [a Ha]; [lia|]. rewrite Ha. discriminate.
  - intros d _. apply bind_not_OOB; [apply IH; exact H1 | intros; discriminate].
Qed.

Lemma validate_rows_valid id_map : forall rows,
  validate_rows false (zlen id_map) id_map rows = Ok tt ->
  Forall (fun kr => fst kr = true -> parents_valid (zlen id_map) (snd kr)) rows.
Proof.
  induction rows as [|[k ps] r IH]; intro H; [constructor|]. simpl in H.
  destruct k.
  - destruct (validate_parents false (zlen id_map) id_map ps) as [[]| | |] eqn:V; simpl in H; try discriminate.
    constructor; [intros _; apply validate_parents_valid with id_map; exact V | apply IH; exact H].
  - simpl in H. constructor; [simpl; discriminate | apply IH; exact H].
Qed.

Lemma validate_rows_not_OOB b id_map : forall rows, validate_rows b (zlen id_map) id_map rows <> OOB.
Proof.
  induction rows as [|[k ps] r IH]; simpl; [discriminate|].
  apply bind_not_OOB; [destruct k; [apply validate_parents_not_OOB; reflexivity | discriminate] | intros _ _; exact IH].
Qed.

Lemma remap_rows_valid id_map : forall rows,
  Forall (fun kr => fst kr = true -> parents_valid (zlen id_map) (snd kr)) rows -> remap_rows id_map rows <> OOB.
Proof.
  induction rows as [|[k ps] r IH]; intro F; simpl; [discriminate|].
  pose proof (Forall_inv F) as H0. pose proof (Forall_inv_tail F) as H1. simpl in H0.
  destruct k; [|apply IH; exact H1].
  apply bind_not_OOB; [apply remap_parents_valid; apply H0; reflexivity|]. intros p _.
  apply bind_not_OOB; [apply IH; exact H1 | intros; discriminate].
Qed.

Theorem guard_implies_in_bounds_individual_keep_rows id_map rows :
  individual_keep_rows false id_map rows <> OOB.
Proof.
  unfold individual_keep_rows. apply bind_not_OOB; [apply validate_rows_not_OOB|].
  intros [] H. apply remap_rows_valid. apply validate_rows_valid. exact H.
Qed.

(* seeded change C09-7 *)
Theorem individual_keep_rows_break_mutant_refuted :
  exists id_map rows, individual_keep_rows true id_map rows = OOB.
Proof. exists [0; 1], [(true, [-1; 5])]. vm_compute. reflexivity. Qed.

(* ---- two-site scratch: capacity >= writes ---- *)
Lemma incr_weaken lo lo' l n : lo' <= lo -> incr lo l n -> incr lo' l n.
Proof. destruct l as [|x r]; simpl; [auto|]. intros H [H1 H2]. split; [lia | exact H2]. Qed.

Lemma merge_sites_table_capacity n : forall fuel rows cols sites s,
  zlen sites = n -> 0 <= s -> incr s rows n -> incr s cols n ->
  (length rows + length cols <= fuel)%nat ->
  merge_sites fuel rows cols sites s <> OOB /\ merge_sites fuel rows cols sites s <> Fuel.
Proof.
  induction fuel as [|f IH]; intros rows cols sites s L S IR IC F.
  - destruct rows, cols; simpl in *; try lia. split; discriminate.
  - destruct rows as [|r rs], cols as [|c cs]; simpl.
    + split; discriminate.
    + destruct IC as [C1 C2]. destruct (set_in sites s c) as [b [Hb Lb]]; [lia|]. rewrite Hb. simpl.
      apply IH; [lia | lia | exact I | apply incr_weaken with (c + 1); [lia | exact C2] | simpl in *; lia].
    + destruct IR as [R1 R2]. destruct (set_in sites s r) as [b [Hb Lb]]; [lia|]. rewrite Hb. simpl.
      apply IH; [lia | lia | apply incr_weaken with (r + 1); [lia | exact R2] | exact I | simpl in *; lia].
    + destruct IR as [R1 R2]. destruct IC as [C1 C2].
      destruct (r <? c) eqn:E1; [|destruct (c <? r) eqn:E2].
      * apply Z.ltb_lt in E1. destruct (set_in sites s r) as [b [Hb Lb]]; [lia|]. rewrite Hb. simpl.
        apply IH; [lia | lia | apply incr_weaken with (r + 1); [lia | exact R2] | simpl; split; [lia | exact C2] | simpl in *; lia].
      * apply Z.ltb_lt in E2. destruct (set_in sites s c) as [b [Hb Lb]]; [lia|]. rewrite Hb. simpl.
        apply IH; [lia | lia | simpl; split; [lia | exact R2] | apply incr_weaken with (c + 1); [lia | exact C2] | simpl in *; lia].
      * apply Z.ltb_ge in E1. apply Z.ltb_ge in E2. assert (r = c) by lia. subst c.
        destruct (set_in sites s r) as [b [Hb Lb]]; [lia|]. rewrite Hb. simpl.
        apply IH; [lia | lia | apply incr_weaken with (r + 1); [lia | exact R2] | apply incr_weaken with (r + 1); [lia | exact C2] | simpl in *; lia].
Qed.

(* the code in /repo: `sites` has num_sites elements; the row and column lists are strictly
   increasing lists of valid site ids (check_sites) *)
Theorem two_site_scratch_capacity_table num_sites rows cols :
  0 <= num_sites -> incr 0 rows num_sites -> incr 0 cols num_sites ->
  two_site_scratch num_sites rows cols <> OOB /\ two_site_scratch num_sites rows cols <> Fuel.
Proof.
  intros H IR IC. unfold two_site_scratch.
  apply merge_sites_table_capacity with num_sites; auto; [apply zlen_alloc; exact H | lia].
Qed.

Lemma merge_sites_sum_capacity : forall fuel rows cols sites s,
  0 <= s -> s + Z.of_nat (length rows + length cols) <= zlen sites ->
  (length rows + length cols <= fuel)%nat ->
  merge_sites fuel rows cols sites s <> OOB /\ merge_sites fuel rows cols sites s <> Fuel.
Proof.
  induction fuel as [|f IH]; intros rows cols sites s S B F.
  - destruct rows, cols; simpl in *; try lia. split; discriminate.
  - destruct rows as [|r rs], cols as [|c cs]; simpl in *.
    + split; discriminate.
    + destruct (set_in sites s c) as [b [Hb Lb]]; [lia|]. rewrite Hb. simpl. apply IH; simpl; lia.
    + destruct (set_in sites s r) as [b [Hb Lb]]; [lia|]. rewrite Hb. simpl. apply IH; simpl; lia.
    + destruct (r <? c); [|destruct (c <? r)];
        (destruct (set_in sites s r) as [b [Hb Lb]]; [lia|] || idtac);
        try (rewrite Hb; simpl; apply IH; simpl; lia).
      destruct (set_in sites s c) as [b2 [Hb2 Lb2]]; [lia|]. rewrite Hb2. simpl. apply IH; simpl; lia.
Qed.

(* sized by the request: n_rows + n_cols elements always suffice, for ANY two lists *)
Theorem two_site_scratch_capacity_sum rows cols :
  two_site_scratch (zlen rows + zlen cols) rows cols <> OOB.
Proof.
  unfold two_site_scratch. pose proof (zlen_nonneg rows). pose proof (zlen_nonneg cols).
  apply merge_sites_sum_capacity; [lia | rewrite zlen_alloc by lia; unfold zlen; lia | lia].
Qed.

(* seeded change C09-8: max(n_rows, n_cols) elements *)
Theorem two_site_scratch_max_capacity_mutant_refuted :
  exists rows cols, incr 0 rows 2 /\ incr 0 cols 2 /\
    two_site_scratch (Z.max (zlen rows) (zlen cols)) rows cols = OOB.
Proof. exists [0], [1]. repeat split; try (simpl; lia). Qed.

(* check_sites establishes the precondition *)
Lemma check_sites_incr n : forall sites, check_sites true n sites = Ok tt -> incr 0 sites n.
Proof.
  assert (forall sites lo, 0 <= lo -> (match sites with [] => True | x :: _ => lo <= x end) ->
            check_sites true n sites = Ok tt -> incr lo sites n) as G.
  { induction sites as [|s rest IH]; intros lo HL HH H; [exact I|]. simpl in H.
    destruct rest as [|s' rest'].
    - destruct ((s <? 0) || (s >=? n)) eqn:E; [discriminate|]. apply orb_false_iff in E as [E1 E2].
      simpl. split; [lia | exact I].
    - destruct ((s <? 0) || (s >=? n)) eqn:E; [discriminate|]. apply orb_false_iff in E as [E1 E2].
      destruct (s >? s') eqn:E3; [discriminate|]. destruct (s =? s') eqn:E4; [discriminate|].
      apply Z.eqb_neq in E4. assert (s < s') by lia.
      split; [lia|]. apply IH; [lia | lia | exact H]. }
  intros [|x r] H; [exact I|]. apply G; [lia | | exact H].
  simpl in H. destruct r; destruct ((x <? 0) || _) eqn:E; try discriminate; apply orb_false_iff in E; lia.
Qed.

Theorem two_site_entry_capacity num_sites rows cols :
  0 <= num_sites -> check_sites true num_sites rows = Ok tt -> check_sites true num_sites cols = Ok tt ->
  two_site_scratch num_sites rows cols <> OOB.
Proof.
  intros H R C. apply two_site_scratch_capacity_table; [exact H | apply check_sites_incr; exact R | apply check_sites_incr; exact C].
Qed.

(* ---- variant sample lists ---- *)
Theorem variant_guard_inside_impute_block_mutant_refuted :
  exists N flags samples, 0 <= N /\ zlen flags = N /\
    variant_index_map_v true true N flags 0 (alloc N TSK_NULL) samples = OOB.
Proof. exists 2, [1; 1], [2]. repeat split; try lia; vm_compute; reflexivity. Qed.

Theorem guard_implies_in_bounds_variant_index_map imp N flags samples : forall j map,
  zlen flags = N -> zlen map = N -> variant_index_map_v false imp N flags j map samples <> OOB.
Proof.
  induction samples as [|u rest IH]; intros j map LF LM; simpl; [discriminate|].
  destruct ((u <? 0) || (u >=? N)) eqn:E; [discriminate|]. apply orb_false_iff in E as [E1 E2].
  destruct ((u <? 0) || (u >=? zlen map)) eqn:G.
  { apply orb_true_iff in G as [G|G]; [apply Z.ltb_lt in G | apply Z.geb_le in G]; lia. }
  destruct (get_in map u) as [m Hm]; [lia|]. rewrite Hm. simpl.
  destruct (negb (m =? TSK_NULL)); [discriminate|].
  apply bind_not_OOB.
  - destruct imp; [discriminate|]. destruct (get_in flags u) as [f Hf]; [lia|]. rewrite Hf. discriminate.
  - intros f _. destruct (negb imp && negb (Z.odd f)); [discriminate|].
    destruct (set_in map u j) as [map' [Hs Hl]]; [lia|]. rewrite Hs. simpl. apply IH; lia.
Qed.

Theorem variant_copy_samples_capacity cap samples :
  zlen samples <= cap -> variant_copy_samples cap samples <> OOB.
Proof.
  intro H. unfold variant_copy_samples. pose proof (zlen_nonneg samples) as NN.
  assert (forall l buf k, 0 <= k -> k + zlen l <= zlen buf ->
    (fix go (buf : list Z) (k : Z) (l : list Z) : res (list Z) :=
       match l with [] => Ok buf | u :: r => do b <- set buf k u; go b (k + 1) r end) buf k l <> OOB) as G.
  { induction l as [|u r IH]; intros buf k K B; [discriminate|].
    assert (zlen (u :: r) = zlen r + 1) as ZL by (unfold zlen; simpl; lia). pose proof (zlen_nonneg r).
    destruct (set_in buf k u) as [b [Hb Lb]]; [lia|]. rewrite Hb. simpl. apply IH; lia. }
  apply G; [lia | rewrite zlen_alloc by lia; lia].
Qed.

Theorem variant_copy_samples_too_small_refuted :
  exists cap samples, cap < zlen samples /\ variant_copy_samples cap samples = OOB.
Proof. exists 1, [0; 1]. split; [unfold zlen; simpl; lia | vm_compute; reflexivity]. Qed.

Example ex_keep_rows_ok : individual_keep_rows false [0; -1; 1] [(true, [-1; 0]); (false, [7]); (true, [2])] = Ok [[-1; 0]; [1]].
Proof. reflexivity. Qed.
Example ex_keep_rows_rejected : individual_keep_rows false [0; 1] [(true, [-1; 5])] = Err E_LIBRARY.
Proof. reflexivity. Qed.
Example ex_two_site : two_site_scratch 3 [0; 2] [1] = Ok ([0; 1; 2], 3).
Proof. reflexivity. Qed.

(* ---- index copy: stale indexes ---- *)
Theorem guard_implies_in_bounds_copy_indexes index_num_edges edges_num_rows :
  0 <= index_num_edges -> copy_indexes true index_num_edges edges_num_rows <> OOB.
Proof.
  intro H. unfold copy_indexes. simpl.
  destruct (index_num_edges =? edges_num_rows) eqn:E; simpl; [|discriminate].
  apply Z.eqb_eq in E. subst edges_num_rows.
  apply bind_not_OOB; [apply read_prefix_not_OOB; [lia | rewrite zlen_alloc by lia; lia]|].
  intros _ _. apply read_prefix_not_OOB; [lia | rewrite zlen_alloc by lia; lia].
Qed.

(* seeded change C09-9: the count comparison dropped from the guard *)
Theorem copy_indexes_pointer_only_guard_mutant_refuted :
  exists index_num_edges edges_num_rows, 0 <= index_num_edges < edges_num_rows /\
    copy_indexes false index_num_edges edges_num_rows = OOB.
Proof. exists 2, 3. split; [lia | vm_compute; reflexivity]. Qed.

(* a shrunken edge table is harmless even without the comparison: the overrun needs growth *)
Theorem copy_indexes_shrunk_in_bounds b index_num_edges edges_num_rows :
  0 <= edges_num_rows <= index_num_edges -> copy_indexes b index_num_edges edges_num_rows <> OOB.
Proof.
  intro H. unfold copy_indexes. destruct (b && _); [discriminate|].
  apply bind_not_OOB; [apply read_prefix_not_OOB; [lia | rewrite zlen_alloc by lia; lia]|].
  intros _ _. apply read_prefix_not_OOB; [lia | rewrite zlen_alloc by lia; lia].
Qed.

(* ---- mutations keep_rows ---- *)
Lemma validate_scalar_rows_valid id_map : forall rows,
  validate_scalar_rows true (zlen id_map) id_map rows = Ok tt ->
  Forall (fun kr => fst kr = true -> parents_valid (zlen id_map) (snd kr))
         (map (fun kr : bool * Z => (fst kr, [snd kr])) rows).
Proof.
  induction rows as [|[k pj] r IH]; intro H; [constructor|].
  change (validate_scalar_rows true (zlen id_map) id_map ((k, pj) :: r))
    with (do _ <- (if k then validate_parent_scalar true (zlen id_map) id_map pj else Ok tt);
          validate_scalar_rows true (zlen id_map) id_map r) in H.
  destruct k.
  - destruct (validate_parent_scalar true (zlen id_map) id_map pj) as [[]| | |] eqn:V; simpl in H; try discriminate.
    change (validate_parent_scalar true (zlen id_map) id_map pj)
      with (validate_parents false (zlen id_map) id_map [pj]) in V.
    constructor; [intros _; simpl; apply validate_parents_valid with id_map; exact V | apply IH; exact H].
  - simpl in H. constructor; [simpl; discriminate | apply IH; exact H].
Qed.

Lemma validate_scalar_rows_not_OOB id_map : forall rows, validate_scalar_rows true (zlen id_map) id_map rows <> OOB.
Proof.
  induction rows as [|[k pj] r IH]; [discriminate|].
  change (validate_scalar_rows true (zlen id_map) id_map ((k, pj) :: r))
    with (do _ <- (if k then validate_parent_scalar true (zlen id_map) id_map pj else Ok tt);
          validate_scalar_rows true (zlen id_map) id_map r).
  apply bind_not_OOB; [|intros _ _; exact IH].
  destruct k; [|discriminate].
  change (validate_parent_scalar true (zlen id_map) id_map pj)
    with (validate_parents false (zlen id_map) id_map [pj]).
  apply validate_parents_not_OOB. reflexivity.
Qed.

Theorem guard_implies_in_bounds_mutation_keep_rows id_map rows :
  mutation_keep_rows true id_map rows <> OOB.
Proof.
  unfold mutation_keep_rows. apply bind_not_OOB; [apply validate_scalar_rows_not_OOB|].
  intros [] H. apply remap_rows_valid. apply validate_scalar_rows_valid. exact H.
Qed.

(* seeded change C09-11: a negative parent other than TSK_NULL is not refused *)
Theorem mutation_keep_rows_negative_parent_mutant_refuted :
  exists id_map rows, mutation_keep_rows false id_map rows = OOB.
Proof. exists [0; 1], [(true, -2); (true, -1)]. vm_compute. reflexivity. Qed.

(* ---- deduplicate_sites ---- *)
Theorem guard_implies_in_bounds_deduplicate_sites dups num_sites msite :
  0 <= num_sites -> deduplicate_sites_entry true dups num_sites msite <> OOB.
Proof.
  intro H. unfold deduplicate_sites_entry. destruct (num_sites =? 0); [discriminate|]. simpl.
  destruct (ids_in_range num_sites msite) eqn:E; simpl; [|discriminate].
  destruct dups; [|discriminate].
  apply read_all_in_range with num_sites; [apply zlen_alloc; exact H | apply ids_in_range_forall; exact E].
Qed.

(* seeded change C09-12: only the site table is checked *)
(* the documented early exit: a collection without sites is returned untouched, whatever the
   mutation table refers to — no check, but also no access *)
Example ex_deduplicate_sites_no_sites : deduplicate_sites_entry true false 0 [5; -3] = Ok tt.
Proof. reflexivity. Qed.
Example ex_deduplicate_sites_rejects : deduplicate_sites_entry true true 2 [0; 2] = Err E_LIBRARY.
Proof. reflexivity. Qed.

Theorem deduplicate_sites_site_only_check_mutant_refuted :
  exists num_sites msite, 0 <= num_sites /\ deduplicate_sites_entry false true num_sites msite = OOB.
Proof. exists 2, [0; 2]. split; [lia | vm_compute; reflexivity]. Qed.
