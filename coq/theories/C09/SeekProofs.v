(* C09 — totality of the linear seek for finite in-range positions (the counterpart of
   tree_seek_nan_never_returns): with sorted breakpoints b_0 = 0 < ... < b_T = L, from any
   state and in either direction the walk reaches the tree that covers x within T + 1 steps. *)
From Coq Require Import List ZArith Bool Lia.
From TskVerif Require Import Base.Common C09.Guards C09.GuardProofs.
Import ListNotations.
Open Scope Z_scope.

Definition bps_sorted (bps : list Z) (T : Z) : Prop :=
  zlen bps = T + 1 /\ forall i, 0 <= i < T -> forall l r, get bps i = Ok l -> get bps (i + 1) = Ok r -> l < r.

Definition covers (bps : list Z) (k z : Z) : Prop :=
  exists l r, get bps k = Ok l /\ get bps (k + 1) = Ok r /\ l <= z < r.

Lemma in_interval_true bps k z : 0 <= k -> covers bps k z -> in_interval bps k (Fin z) = Ok true.
Proof.
  intros K [l [r [Hl [Hr R]]]]. unfold in_interval.
  destruct (k =? -1) eqn:E; [apply Z.eqb_eq in E; lia|].
  rewrite Hl, Hr. simpl. f_equal. apply andb_true_iff. split; [apply Z.leb_le | apply Z.ltb_lt]; lia.
Qed.

Lemma in_interval_total bps T i x :
  zlen bps = T + 1 -> -1 <= i < T -> exists b, in_interval bps i x = Ok b.
Proof.
  intros L R. unfold in_interval. destruct (i =? -1) eqn:E; [eauto|]. apply Z.eqb_neq in E.
  destruct (get_in bps i) as [l Hl]; [lia|]. destruct (get_in bps (i + 1)) as [r Hr]; [lia|].
  rewrite Hl, Hr. simpl. eauto.
Qed.

(* forward distance from i to k in the cycle -1, 0, 1, .., T-1, -1, .. *)
Definition fdist (T i k : Z) : Z := (k - i) mod (T + 1).
Definition bdist (T i k : Z) : Z := (i - k) mod (T + 1).

Lemma fdist_step T i k : 1 <= T -> -1 <= i < T -> 0 <= k < T -> i <> k ->
  fdist T (step_index true T i) k = fdist T i k - 1.
Proof.
  intros HT R K NE. unfold fdist, step_index.
  destruct (i =? T - 1) eqn:E.
  - apply Z.eqb_eq in E. subst i.
    replace (k - -1) with (k + 1) by lia. replace (k - (T - 1)) with ((k + 2) + (-1) * (T + 1)) by lia.
    rewrite Z.mod_add by lia. rewrite !Z.mod_small by lia. lia.
  - apply Z.eqb_neq in E. replace (k - (i + 1)) with (k - i - 1) by lia.
    destruct (Z_lt_le_dec k i).
    + replace (k - i - 1) with ((k - i - 1 + (T + 1)) + (-1) * (T + 1)) by lia.
      replace (k - i) with ((k - i + (T + 1)) + (-1) * (T + 1)) by lia.
      rewrite !Z.mod_add by lia. rewrite !Z.mod_small by lia. lia.
    + rewrite !Z.mod_small by lia. lia.
Qed.

Lemma bdist_step T i k : 1 <= T -> -1 <= i < T -> 0 <= k < T -> i <> k ->
  bdist T (step_index false T i) k = bdist T i k - 1.
Proof.
  intros HT R K NE. unfold bdist, step_index.
  destruct (i =? -1) eqn:E.
  - apply Z.eqb_eq in E. subst i.
    replace (-1 - k) with ((T - k) + (-1) * (T + 1)) by lia.
    rewrite Z.mod_add by lia. rewrite !Z.mod_small by lia. lia.
  - apply Z.eqb_neq in E. replace (i - 1 - k) with (i - k - 1) by lia.
    destruct (Z_lt_le_dec i k).
    + replace (i - k - 1) with ((i - k - 1 + (T + 1)) + (-1) * (T + 1)) by lia.
      replace (i - k) with ((i - k + (T + 1)) + (-1) * (T + 1)) by lia.
      rewrite !Z.mod_add by lia. rewrite !Z.mod_small by lia. lia.
    + rewrite !Z.mod_small by lia. lia.
Qed.

Lemma seek_loop_reaches bps T k z (fwd : bool) : forall fuel i,
  zlen bps = T + 1 -> 1 <= T -> 0 <= k < T -> covers bps k z -> -1 <= i < T ->
  (if fwd then fdist T i k else bdist T i k) < Z.of_nat fuel ->
  exists j, seek_loop fuel fwd bps T i (Fin z) = Ok j /\ in_interval bps j (Fin z) = Ok true.
Proof.
  induction fuel as [|f IH]; intros i L HT K C R D.
  - exfalso. destruct fwd; [unfold fdist in D | unfold bdist in D];
      match type of D with ?a mod ?b < _ => pose proof (Z.mod_pos_bound a b ltac:(lia)) end; lia.
  - simpl. destruct (in_interval_total bps T i (Fin z) L R) as [b Hb]. rewrite Hb. simpl.
    destruct b; [exists i; split; [reflexivity | exact Hb]|].
    assert (i <> k) as NE.
    { intro E. subst i. rewrite (in_interval_true bps k z ltac:(lia) C) in Hb. discriminate. }
    apply IH; auto; [apply step_index_range; assumption|].
    destruct fwd; [rewrite fdist_step by assumption | rewrite bdist_step by assumption]; lia.
Qed.

Lemma dist_bound T i k (fwd : bool) : 1 <= T -> (if fwd then fdist T i k else bdist T i k) < T + 1.
Proof.
  intro HT. destruct fwd; [unfold fdist | unfold bdist];
    match goal with |- ?a mod ?b < _ => pose proof (Z.mod_pos_bound a b ltac:(lia)) end; lia.
Qed.

(* the tree that covers a position inside [b_0, b_T) exists *)
Lemma covering_tree_exists bps T z :
  bps_sorted bps T -> 1 <= T ->
  (exists b0 bT, get bps 0 = Ok b0 /\ get bps T = Ok bT /\ b0 <= z < bT) ->
  exists k, 0 <= k < T /\ covers bps k z.
Proof.
  intros [L S] HT [b0 [bT [H0 [HTT R]]]].
  (* largest k with b_k <= z, by induction on T - ... : search upward *)
  assert (forall n : nat, forall k, 0 <= k -> k + Z.of_nat n = T ->
            (exists l, get bps k = Ok l /\ l <= z) ->
            exists k', 0 <= k' < T /\ covers bps k' z) as SEARCH.
  { induction n as [|n IHn]; intros k K E [l [Hl Le]].
    - exfalso. assert (k = T) by lia. subst k. rewrite HTT in Hl. inversion Hl. lia.
    - destruct (get_in bps (k + 1)) as [r Hr]; [lia|].
      destruct (Z_lt_le_dec z r).
      + exists k. split; [lia|]. exists l, r. repeat split; auto.
      + apply (IHn (k + 1)); [lia | lia | eauto]. }
  apply (SEARCH (Z.to_nat T) 0); [lia | lia | exists b0; split; [exact H0 | lia]].
Qed.

Theorem tree_seek_linear_terminates bps T i z fwd :
  bps_sorted bps T -> 1 <= T -> -1 <= i < T ->
  (exists b0 bT, get bps 0 = Ok b0 /\ get bps T = Ok bT /\ b0 <= z < bT) ->
  exists j, seek_loop (Z.to_nat (T + 1)) fwd bps T i (Fin z) = Ok j /\ in_interval bps j (Fin z) = Ok true.
Proof.
  intros S HT R B. destruct (covering_tree_exists bps T z S HT B) as [k [K C]].
  destruct S as [L _].
  apply seek_loop_reaches with (k := k); auto.
  pose proof (dist_bound T i k fwd HT). rewrite Z2Nat.id by lia. exact H.
Qed.

Example ex_terminates : seek_loop (Z.to_nat 4) false [0; 2; 5; 9] 3 0 (Fin 7) = Ok 2.
Proof. reflexivity. Qed.
