(* C09 — guard models, third tier.  Executable definitions only. *)
From Coq Require Import List ZArith Bool Lia String.
From TskVerif Require Import Base.Common C09.Guards C09.Guards2.
Import ListNotations.
Open Scope Z_scope.

(* ------------------------------------------------------------------------------------ *)
(* python/lwt_interface/tskit_lwt_interface.h parse_<table>_table_dict (set_columns,
   append_columns, fromdict, unpickling): the columns are read in a fixed order with
   table_read_column_array / table_read_offset_array(input, &num_rows, .., check_num_rows).
   With check_num_rows = false the column's own length is ADOPTED as num_rows (legitimate for
   the first column only); with true it must agree.  Absent optional columns are skipped.
   tsk_<table>_table_append_columns then reads num_rows elements of every fixed column and
   num_rows + 1 of every offset column.
   spec  = (name, (is_offset, check_num_rows)) in source order — re-read from the header on
           every run (constants C09_columns_<table> of Gen/Generated.v);
   given = (name, length of the array passed) for the columns that are present. *)
Definition colspec := list (string * (bool * bool)).

Fixpoint lookup (name : string) (given : list (string * Z)) : option Z :=
  match given with
  | [] => None
  | (k, v) :: r => if String.eqb k name then Some v else lookup name r
  end.

Definition rows_of (is_offset : bool) (len : Z) : Z := if is_offset then len - 1 else len.

(* returns the final num_rows and, for every column that was read, (is_offset, length) *)
Fixpoint parse_columns (spec : colspec) (given : list (string * Z)) (num_rows : Z) (seen : list (bool * Z))
  : res (Z * list (bool * Z)) :=
  match spec with
  | [] => Ok (num_rows, seen)
  | (name, (is_offset, check)) :: rest =>
      match lookup name given with
      | None => parse_columns rest given num_rows seen
      | Some len =>
          if is_offset && (len =? 0) then Err E_VALUE else
          if check then
            (if rows_of is_offset len =? num_rows then parse_columns rest given num_rows ((is_offset, len) :: seen)
             else Err E_VALUE)
          else parse_columns rest given (rows_of is_offset len) ((is_offset, len) :: seen)
      end
  end.

Fixpoint read_columns (num_rows : Z) (seen : list (bool * Z)) : res unit :=
  match seen with
  | [] => Ok tt
  | (is_offset, len) :: r =>
      do _ <- read_prefix (alloc len 0) 0 (Z.to_nat (if is_offset then num_rows + 1 else num_rows));
      read_columns num_rows r
  end.

Definition table_columns_entry (spec : colspec) (given : list (string * Z)) : res Z :=
  do '(nr, seen) <- parse_columns spec given 0 [];
  do _ <- read_columns nr seen;
  Ok nr.

(* only the first column may adopt its length *)
Definition spec_well_formed (spec : colspec) : bool :=
  match spec with
  | [] => true
  | (_, (_, c0)) :: rest => negb c0 && forallb (fun e => snd (snd e)) rest
  end.

(* ------------------------------------------------------------------------------------ *)
(* trees.c tsk_treeseq_genetic_relatedness_weighted (l.4651-4710) + its summary functions
   (l.4613-4649): index_tuples[2k], index_tuples[2k+1] index total_weights (num_weights + 1
   elements) and the state vector x (num_weights + 1 elements).  [checked = false] is the code
   without any validation of the tuples (finding C09-N10); [checked = true] validates them
   with check_set_indexes(num_weights + 1, ...): id num_weights is the column of ones the
   function appends — in bounds, and relied upon by tests/test_lowlevel.py
   (TwoWayWeightedStatsMixin passes indexes [[0, 1]] with a single weight column). *)
Definition check_set_indexes (num_sets : Z) (idx : list Z) : bool :=       (* true = accepted *)
  forallb (fun i => (0 <=? i) && (i <? num_sets)) idx.

Definition relatedness_weighted_entry (checked : bool) (num_weights : Z) (index_tuples : list Z) : res unit :=
  if num_weights =? 0 then Err E_LIBRARY else
  if checked && negb (check_set_indexes (num_weights + 1) index_tuples) then Err E_LIBRARY else
  do _ <- read_all (alloc (num_weights + 1) 0) index_tuples;      (* total_weights[i] *)
  read_all (alloc (num_weights + 1) 0) index_tuples.               (* x[i] *)

(* the sample-set statistics (f2, f3, f4, divergence, Y2, Y3, genetic_relatedness, ...):
   check_set_indexes, then x[i] on a state vector of num_sample_sets elements *)
Definition set_indexes_entry (num_sets : Z) (idx : list Z) : res unit :=
  if negb (check_set_indexes num_sets idx) then Err E_LIBRARY else read_all (alloc num_sets 0) idx.

(* comparison used where an overrun predicted by the (defective, unchecked) model need not be
   observable — e.g. the summary function is never called on a tree sequence without sites:
   only a rejection by the model must be matched by the implementation *)
Definition verdict_implies_raise (model observed : verdict) : bool :=
  match model with VRaise => verdict_eqb VRaise observed | _ => true end.
