(* C09 — guard models.  EXECUTABLE DEFINITIONS ONLY (proofs: GuardProofs.v).

   Every entry point that indexes memory by a caller-supplied identifier (or by a
   caller-supplied array length) is modelled as

        guard args state  ->  body with CHECKED array access (Base.Common.get / set)

   An out-of-range access of the C code is therefore a visible [OOB] result of the model.
   Arrays are lists whose lengths are those of the allocations in the C code ([alloc n v]
   mirrors malloc/calloc of n elements).  The guards are transcribed from the code that
   exists — including the comparisons that are wrong (F3: `>` instead of `>=`); entries
   with a defective guard take the comparison as a parameter ([strict : bool]) so that both
   the code as it is ([strict = false]) and the repaired code ([strict = true]) are
   present; which of the two /repo currently contains is re-read from the C source on every
   run by translator/facts_c09.py (constants C09_* of Gen/Generated.v); the per-run
   correspondence (harness/props/c09.py) instantiates the parameters with these constants.
   This file deliberately does NOT import Gen/Generated.v, so the theorems do not have to be
   re-checked when another property's facts change that file. *)
From Coq Require Import List ZArith Bool Lia.
From TskVerif Require Import Base.Common.
Import ListNotations.
Open Scope Z_scope.

(* ------------------------------------------------------------------------------------ *)
(* verdicts compared with the implementation: returned | raised | sanitizer report | hang *)
Inductive verdict := VOk | VRaise | VOOB | VFuel.

Definition verdict_of {A} (r : res A) : verdict :=
  match r with Ok _ => VOk | Err _ => VRaise | OOB => VOOB | Fuel => VFuel end.

Definition verdict_eqb (a b : verdict) : bool :=
  match a, b with
  | VOk, VOk | VRaise, VRaise | VOOB, VOOB | VFuel, VFuel => true
  | _, _ => false
  end.

(* one-directional comparison, used where the implementation can also fail for reasons the
   guard model does not cover: what the model rejects (or overruns) the implementation does *)
Definition verdict_implies (model observed : verdict) : bool :=
  match model with VOk => true | _ => verdict_eqb model observed end.

(* error classes (only "an exception is raised" is compared; the class documents which
   layer rejects) *)
Definition E_VALUE : Z := 1.      (* ValueError / IndexError raised by the Python layer or _tskitmodule.c *)
Definition E_LIBRARY : Z := 2.    (* tskit.LibraryError: negative return code of the C library *)
Definition E_ABORT : Z := 3.

Definition TSK_NULL : Z := -1.

(* malloc / calloc of n elements *)
Definition alloc {A} (n : Z) (v : A) : list A := repeat v (Z.to_nat n).

(* ------------------------------------------------------------------------------------ *)
(* 1. Tree accessors: python/_tskitmodule.c Tree_get_node_argument (l.12078-12094),
      Tree_check_bounds (l.11715-11723), Tree_get_parent / left_child / right_child /
      left_sib / right_sib / get_edge / get_num_children (l.12139-12260): arrays of
      N + 1 elements (c/tskit/trees.c tsk_tree_init l.5478-5486, N = num_nodes + 1). *)

(* PyArg_ParseTuple format "I" into an `int`: PyLong_AsUnsignedLongMask, no overflow
   check, then reinterpretation as a signed 32-bit int *)
Definition parse_I_as_int (x : Z) : Z :=
  let m := x mod 4294967296 in if m <? 2147483648 then m else m - 4294967296.

(* true = error *)
Definition Tree_check_bounds (num_nodes node : Z) : bool := (node <? 0) || (node >? num_nodes).

Definition Tree_array_get (arr : list Z) (num_nodes x : Z) : res Z :=
  let node := parse_I_as_int x in
  if Tree_check_bounds num_nodes node then Err E_VALUE else get arr node.

(* the same accessor with an argument converter that rejects values outside int32
   (tsk_id_converter / format "i"): the repair of finding C09-N1 *)
Definition fits_int32 (x : Z) : bool := (-2147483648 <=? x) && (x <=? 2147483647).

Definition Tree_array_get_checked_parse (arr : list Z) (num_nodes x : Z) : res Z :=
  if negb (fits_int32 x) then Err E_VALUE else
  if Tree_check_bounds num_nodes x then Err E_VALUE else get arr x.

(* c/tskit/trees.c tsk_tree_check_node (l.5751-5759) and the accessors guarded by it:
   tsk_tree_get_parent (5916), tsk_tree_get_num_samples (5854), tsk_tree_get_num_tracked_samples
   (5873): arrays of N + 1 elements.  true = error *)
Definition tsk_tree_check_node (num_nodes u : Z) : bool := (u <? 0) || (u >? num_nodes).

Definition tsk_tree_array_get (arr : list Z) (num_nodes u : Z) : res Z :=
  if tsk_tree_check_node num_nodes u then Err E_LIBRARY else get arr u.

(* Tree_get_num_samples (module guard, then library guard) *)
Definition Tree_get_num_samples (arr : list Z) (num_nodes x : Z) : res Z :=
  let node := parse_I_as_int x in
  if Tree_check_bounds num_nodes node then Err E_VALUE else tsk_tree_array_get arr num_nodes node.

(* tsk_treeseq_is_sample (trees.c l.706-715): flags has num_nodes elements *)
Definition tsk_treeseq_is_sample (flags : list Z) (num_nodes u : Z) : res bool :=
  if (0 <=? u) && (u <? num_nodes) then
    do f <- get flags u; Ok (Z.odd f)
  else Ok false.

(* tsk_tree_get_time (5930-5947) -> tsk_treeseq_get_node -> tsk_node_table_get_row *)
Definition node_table_get_row_guard (num_rows index : Z) : bool := (index <? 0) || (index >=? num_rows).

Definition tsk_tree_get_time (time : list Z) (num_nodes u : Z) : res Z :=
  if u =? num_nodes then Ok 0 (* INFINITY *) else
  if node_table_get_row_guard num_nodes u then Err E_LIBRARY else get time u.

Definition Tree_get_time (time : list Z) (num_nodes x : Z) : res Z :=
  let node := parse_I_as_int x in
  if Tree_check_bounds num_nodes node then Err E_VALUE else tsk_tree_get_time time num_nodes node.

(* Tree_get_next_sample (module l.12376-12403): next_sample has num_samples elements *)
Definition Tree_get_next_sample (next_sample : list Z) (num_samples : Z) (has_sample_lists : bool) (x : Z) : res Z :=
  let i := parse_I_as_int x in
  if (i <? 0) || (i >=? num_samples) then Err E_VALUE else
  if negb has_sample_lists then Err E_VALUE else get next_sample i.

(* walks up the parent array: tsk_tree_is_descendant (5761-5775), tsk_tree_get_depth_unsafe
   (6016-6030).  parent has N + 1 elements; [fuel] bounds the walk (a well-formed tree is
   acyclic; Fuel = the walk did not end) *)
Fixpoint walk_up (fuel : nat) (parent : list Z) (w stop : Z) : res Z :=
  match fuel with
  | O => Fuel
  | S f =>
      if (w =? stop) || (w =? TSK_NULL) then Ok w else
      do p <- get parent w; walk_up f parent p stop
  end.

Definition tsk_tree_is_descendant (fuel : nat) (parent : list Z) (num_nodes u v : Z) : res bool :=
  if negb (tsk_tree_check_node num_nodes u) && negb (tsk_tree_check_node num_nodes v) then
    do w <- walk_up fuel parent u v; Ok (w =? v)
  else Ok false.

Definition Tree_is_descendant (fuel : nat) (parent : list Z) (num_nodes x y : Z) : res bool :=
  let u := parse_I_as_int x in let v := parse_I_as_int y in
  if Tree_check_bounds num_nodes u then Err E_VALUE else
  if Tree_check_bounds num_nodes v then Err E_VALUE else
  tsk_tree_is_descendant fuel parent num_nodes u v.

Definition tsk_tree_get_depth (fuel : nat) (parent : list Z) (num_nodes u : Z) : res Z :=
  if tsk_tree_check_node num_nodes u then Err E_LIBRARY else
  if u =? num_nodes then Ok (-1) else
  do p <- get parent u; do _ <- walk_up fuel parent p TSK_NULL; Ok 0.

(* Tree_depth (module l.12282-12299): module guard, then the library function *)
Definition Tree_depth (fuel : nat) (parent : list Z) (num_nodes x : Z) : res Z :=
  let node := parse_I_as_int x in
  if Tree_check_bounds num_nodes node then Err E_VALUE else tsk_tree_get_depth fuel parent num_nodes node.

(* ------------------------------------------------------------------------------------ *)
(* 2. Loops over a caller-supplied id list that mark a per-node array:
        for j: u = ids[j]; if (u < 0 || u CMP num_nodes) error; if (mark[u] != unset) dup;
               [extra check on flags[u]]; mark[u] = value
      CMP is `>=` (strict = true) or `>` (strict = false, the F3 defect).  [mark] has
      num_nodes elements (malloc/calloc(num_nodes)). *)
Definition id_guard (strict : bool) (num_nodes u : Z) : bool :=   (* true = error *)
  (u <? 0) || (if strict then u >=? num_nodes else u >? num_nodes).

Fixpoint mark_ids (strict : bool) (num_nodes : Z) (unset value : Z) (mark : list Z) (ids : list Z)
  : res (list Z) :=
  match ids with
  | [] => Ok mark
  | u :: rest =>
      if id_guard strict num_nodes u then Err E_LIBRARY else
      do m <- get mark u;
      if negb (m =? unset) then Err E_LIBRARY (* TSK_ERR_DUPLICATE_SAMPLE *) else
      do mark' <- set mark u value;
      mark_ids strict num_nodes unset value mark' rest
  end.

(* c/tskit/tables.c tsk_ibd_finder_init (l.8779-8794: sample_set_id = malloc(num_nodes),
   memset TSK_NULL) + tsk_ibd_finder_init_samples_from_set (l.8693-8714) *)
Definition ibd_within_init (strict : bool) (num_nodes : Z) (samples : list Z) : res (list Z) :=
  mark_ids strict num_nodes TSK_NULL 0 (alloc num_nodes TSK_NULL) samples.

(* tsk_ibd_finder_init_between (l.8946-8972): sample_set_id[u] = j for the j-th set *)
Fixpoint ibd_between_sets (strict : bool) (num_nodes : Z) (j : Z) (mark : list Z) (sets : list (list Z))
  : res (list Z) :=
  match sets with
  | [] => Ok mark
  | s :: rest =>
      do mark' <- mark_ids strict num_nodes TSK_NULL j mark s;
      ibd_between_sets strict num_nodes (j + 1) mark' rest
  end.

Definition ibd_between_init (strict : bool) (num_nodes : Z) (sets : list (list Z)) : res (list Z) :=
  ibd_between_sets strict num_nodes 0 (alloc num_nodes TSK_NULL) sets.

(* ancestor_mapper_init (is_sample / is_ancestor = calloc(num_nodes)) +
   ancestor_mapper_init_samples (l.7969-7994) / _init_ancestors (l.7996-8016); samples first *)
Definition link_ancestors_init (strict_samples strict_ancestors : bool) (num_nodes : Z)
           (samples ancestors : list Z) : res (list Z * list Z) :=
  do s <- mark_ids strict_samples num_nodes 0 1 (alloc num_nodes 0) samples;
  do a <- mark_ids strict_ancestors num_nodes 0 1 (alloc num_nodes 0) ancestors;
  Ok (s, a).

(* simplifier_init (l.9655-9668): is_sample = calloc(num_nodes); guard `>=` *)
Definition simplifier_init_samples (num_nodes : Z) (samples : list Z) : res (list Z) :=
  mark_ids true num_nodes 0 1 (alloc num_nodes 0) samples.

(* entry points with their preconditions that are not about identifiers:
   tsk_table_collection_simplify (l.12078-12083) and tsk_table_collection_link_ancestors
   (l.12130-12133) refuse edge metadata; ancestor_mapper_init (l.8035) refuses empty lists;
   tsk_table_collection_subset refuses migrations (l.13022) after the node loop *)
(* [unsupported] = edge metadata present, or a non-empty migration table
   (TSK_ERR_SIMPLIFY_MIGRATIONS_NOT_SUPPORTED) *)
Definition simplify_entry (unsupported : bool) (num_nodes : Z) (samples : list Z) : res (list Z) :=
  if unsupported then Err E_LIBRARY else simplifier_init_samples num_nodes samples.

Definition link_ancestors_entry (strict_samples strict_ancestors has_edge_metadata : bool) (num_nodes : Z)
           (samples ancestors : list Z) : res (list Z * list Z) :=
  if has_edge_metadata then Err E_LIBRARY else
  if (zlen samples =? 0) || (zlen ancestors =? 0) then Err E_LIBRARY else
  link_ancestors_init strict_samples strict_ancestors num_nodes samples ancestors.

(* c/tskit/genotypes.c variant_init_samples_and_index_map (l.90-131): alt_sample_index_map =
   malloc(num_nodes) memset 0xff; flags[u] read after the bound check *)
Fixpoint variant_index_map (impute_missing : bool) (num_nodes : Z) (flags : list Z) (j : Z)
         (map : list Z) (samples : list Z) : res (list Z) :=
  match samples with
  | [] => Ok map
  | u :: rest =>
      if (u <? 0) || (u >=? num_nodes) then Err E_LIBRARY else
      do m <- get map u;
      if negb (m =? TSK_NULL) then Err E_LIBRARY else
      do f <- get flags u;
      if negb impute_missing && negb (Z.odd f) then Err E_LIBRARY else
      do map' <- set map u j;
      variant_index_map impute_missing num_nodes flags (j + 1) map' rest
  end.

Definition variant_init_samples (impute_missing : bool) (num_nodes : Z) (flags : list Z) (samples : list Z) :=
  variant_index_map impute_missing num_nodes flags 0 (alloc num_nodes TSK_NULL) samples.

(* Tree_init (module l.11768-11782: `< 0 || >= num_nodes` -> ValueError) followed by
   tsk_tree_set_tracked_samples (trees.c l.5594-5632): num_tracked_samples = calloc(N + 1);
   the count is propagated to the ancestors through parent (N + 1 elements). *)
Fixpoint bump_up (fuel : nat) (parent counts : list Z) (u : Z) : res (list Z) :=
  match fuel with
  | O => Fuel
  | S f =>
      if u =? TSK_NULL then Ok counts else
      do c <- get counts u;
      do counts' <- set counts u (c + 1);
      do p <- get parent u;
      bump_up f parent counts' p
  end.

Fixpoint set_tracked_loop (fuel : nat) (num_nodes : Z) (flags parent counts : list Z) (samples : list Z)
  : res (list Z) :=
  match samples with
  | [] => Ok counts
  | u :: rest =>
      if (u <? 0) || (u >=? num_nodes) then Err E_LIBRARY else
      do s <- tsk_treeseq_is_sample flags num_nodes u;
      if negb s then Err E_LIBRARY else
      do c <- get counts u;
      if negb (c =? 0) then Err E_LIBRARY else
      do counts' <- bump_up fuel parent counts u;
      set_tracked_loop fuel num_nodes flags parent counts' rest
  end.

Definition tsk_tree_set_tracked_samples (fuel : nat) (num_nodes : Z) (flags parent : list Z) (samples : list Z)
  : res (list Z) :=
  do counts <- set (alloc (num_nodes + 1) 0) num_nodes (zlen samples);   (* counts[virtual_root] = n *)
  set_tracked_loop fuel num_nodes flags parent counts samples.

Definition Tree_init_tracked (fuel : nat) (num_nodes : Z) (flags parent : list Z) (samples : list Z) : res (list Z) :=
  if existsb (fun u => (u <? 0) || (u >=? num_nodes)) samples then Err E_VALUE else
  tsk_tree_set_tracked_samples fuel num_nodes flags parent samples.

(* trees.c tsk_treeseq_check_sample_sets (l.2039-2074): sample_index_map has num_nodes
   elements; the flat array sample_sets is indexed by a running counter j *)
Fixpoint check_sets_inner (num_nodes : Z) (index_map flat : list Z) (j : Z) (size : nat) : res Z :=
  match size with
  | O => Ok j
  | S k =>
      do u <- get flat j;
      if (u <? 0) || (u >=? num_nodes) then Err E_LIBRARY else
      do si <- get index_map u;
      if si =? TSK_NULL then Err E_LIBRARY else
      check_sets_inner num_nodes index_map flat (j + 1) k
  end.

Fixpoint check_sets_outer (num_nodes : Z) (index_map flat : list Z) (j : Z) (sizes : list nat) : res Z :=
  match sizes with
  | [] => Ok j
  | sz :: rest =>
      match sz with O => Err E_LIBRARY (* TSK_ERR_EMPTY_SAMPLE_SET *) | _ =>
      do j' <- check_sets_inner num_nodes index_map flat j sz;
      check_sets_outer num_nodes index_map flat j' rest end
  end.

Definition tsk_treeseq_check_sample_sets (num_nodes : Z) (index_map : list Z) (sizes : list nat) (flat : list Z) : res Z :=
  match sizes with [] => Err E_LIBRARY | _ => check_sets_outer num_nodes index_map flat 0 sizes end.

(* trees.c check_coalescence_rate_time_windows (l.9848-9857): nodes_time[n] is read for
   every element of the sample sets BEFORE tsk_treeseq_check_sample_sets runs (finding
   C09-N2).  [checked_first = true] is the repaired order. *)
Fixpoint rates_sample_times (nodes_time : list Z) (t0 : Z) (flat : list Z) : res unit :=
  match flat with
  | [] => Ok tt
  | n :: rest => do t <- get nodes_time n; if negb (t =? t0) then Err E_LIBRARY else rates_sample_times nodes_time t0 rest
  end.

Definition pair_coalescence_rates_entry (checked_first : bool) (num_nodes : Z) (index_map nodes_time : list Z)
           (t0 : Z) (sizes : list nat) (flat : list Z) : res unit :=
  if checked_first then
    do _ <- tsk_treeseq_check_sample_sets num_nodes index_map sizes flat;
    rates_sample_times nodes_time t0 flat
  else
    do _ <- rates_sample_times nodes_time t0 flat;
    do _ <- tsk_treeseq_check_sample_sets num_nodes index_map sizes flat; Ok tt.

(* ------------------------------------------------------------------------------------ *)
(* 3. Table rows: tsk_X_table_get_row (tables.c, e.g. node l.2511-2522) guard
      `index < 0 || index >= num_rows`; fixed columns have num_rows elements, offset columns
      num_rows + 1 (get_row_unsafe reads offset[index] and offset[index + 1]). *)
Definition table_get_row (col offset : list Z) (num_rows index : Z) : res (Z * Z * Z) :=
  if (index <? 0) || (index >=? num_rows) then Err E_LIBRARY else
  do c <- get col index; do o0 <- get offset index; do o1 <- get offset (index + 1);
  Ok (c, o0, o1).

(* python/tskit/tables.py BaseTable.__getitem__ (l.510-516): negative indices wrap *)
Definition py_table_getitem (col offset : list Z) (num_rows index : Z) : res (Z * Z * Z) :=
  let i := if index <? 0 then index + num_rows else index in
  if (i <? 0) || (i >=? num_rows) then Err E_VALUE else table_get_row col offset num_rows i.

(* tsk_X_table_extend (e.g. node l.2356-2391): get_row for every element of row_indexes *)
Fixpoint table_extend (col offset : list Z) (num_rows : Z) (row_indexes : list Z) : res Z :=
  match row_indexes with
  | [] => Ok 0
  | i :: rest => do _ <- table_get_row col offset num_rows i;
                 do n <- table_extend col offset num_rows rest; Ok (n + 1)
  end.

(* _tskitmodule.c table_keep_rows (l.989-1024): the keep array must have num_rows elements;
   tsk_X_table_keep_rows then reads keep[j] and column[j] for j < num_rows and writes
   id_map[j] (an array of num_rows elements allocated by the wrapper). *)
Fixpoint keep_rows_loop (keep col : list Z) (j : Z) (n : nat) (kept : Z) : res Z :=
  match n with
  | O => Ok kept
  | S n' => do k <- get keep j; do _ <- get col j;
            keep_rows_loop keep col (j + 1) n' (if k =? 0 then kept else kept + 1)
  end.

Definition table_keep_rows (check_length : bool) (keep col : list Z) (num_rows : Z) : res Z :=
  if check_length && negb (zlen keep =? num_rows) then Err E_VALUE else
  keep_rows_loop keep col 0 (Z.to_nat num_rows) 0.

(* tsk_table_collection_subset (l.12953-13018): every nodes[k] goes through
   tsk_node_table_get_row (add_and_remap_node l.12834) before node_map[node.id] (num_nodes
   elements) is written; with keep_unreferenced = false an explicit check comes first *)
Fixpoint subset_nodes (num_nodes : Z) (node_col node_map : list Z) (new_id : Z) (nodes : list Z) : res (list Z) :=
  match nodes with
  | [] => Ok node_map
  | u :: rest =>
      if (u <? 0) || (u >=? num_nodes) then Err E_LIBRARY else
      do _ <- get node_col u;
      do m <- set node_map u new_id;
      subset_nodes num_nodes node_col m (new_id + 1) rest
  end.

Definition table_collection_subset (num_nodes : Z) (node_col : list Z) (nodes : list Z) :=
  subset_nodes num_nodes node_col (alloc num_nodes TSK_NULL) 0 nodes.

Definition subset_entry (has_migrations : bool) (num_nodes : Z) (node_col : list Z) (nodes : list Z) :=
  do m <- table_collection_subset num_nodes node_col nodes;
  if has_migrations then Err E_LIBRARY else Ok m.

(* TableCollection_union (module l.7075-7080: mapping length must be other.num_nodes) and
   tsk_table_collection_union (l.13218-13227: -1 <= map[k] < self.num_nodes), then
   self->nodes.individual[other_node_mapping[k]] (l.13261) *)
Fixpoint union_check_map (self_nodes : Z) (self_col : list Z) (mapping : list Z) (k : Z) (n : nat) : res Z :=
  match n with
  | O => Ok 0
  | S n' =>
      do m <- get mapping k;
      if (m >=? self_nodes) || (m <? TSK_NULL) then Err E_LIBRARY else
      do _ <- (if m =? TSK_NULL then Ok 0 else get self_col m);
      union_check_map self_nodes self_col mapping (k + 1) n'
  end.

Definition table_collection_union (check_length : bool) (self_nodes other_nodes : Z) (self_col mapping : list Z) : res Z :=
  if check_length && negb (zlen mapping =? other_nodes) then Err E_VALUE else
  union_check_map self_nodes self_col mapping 0 (Z.to_nat other_nodes).

(* python/lwt_interface/tskit_lwt_interface.h parse_site_table_dict (l.866-927) /
   parse_mutation_table_dict: num_rows is taken from the first column; every further column
   is read with check_num_rows = true EXCEPT metadata_offset, which is read with
   check_num_rows = false and therefore OVERWRITES num_rows with its own length - 1
   (finding C09-N6).  tsk_site_table_append_columns then reads num_rows elements of the
   fixed column and num_rows + 1 elements of both offset columns. *)
Definition read_column (check : bool) (num_rows len : Z) : res Z :=
  if check then (if num_rows =? len then Ok num_rows else Err E_VALUE) else Ok len.

(* table_read_offset_array (l.168-207): length (checked or adopted), then
   `data[*num_rows] != length` -> "Bad offset column encoding" *)
Definition read_offset (check : bool) (num_rows : Z) (off : list Z) (data_len : Z) : res Z :=
  do n <- (if check then (if zlen off =? num_rows + 1 then Ok num_rows else Err E_VALUE)
           else (if zlen off =? 0 then Err E_VALUE else Ok (zlen off - 1)));
  do last <- get off n;
  if last =? data_len then Ok n else Err E_VALUE.

Fixpoint read_prefix (col : list Z) (j : Z) (n : nat) : res unit :=
  match n with O => Ok tt | S n' => do _ <- get col j; read_prefix col (j + 1) n' end.

Definition site_table_set_columns (metadata_offset_checked : bool)
           (position state_offset metadata_offset : list Z) (state_len metadata_len : Z) : res Z :=
  do n0 <- read_column false 0 (zlen position);
  do n1 <- read_offset true n0 state_offset state_len;
  do n2 <- read_offset metadata_offset_checked n1 metadata_offset metadata_len;
  do _ <- read_prefix position 0 (Z.to_nat n2);
  do _ <- read_prefix state_offset 0 (Z.to_nat (n2 + 1));
  do _ <- read_prefix metadata_offset 0 (Z.to_nat (n2 + 1));
  Ok n2.


(* trees.c tsk_treeseq_two_branch_count_stat (l.3149): row_indexes[n_rows ? n_rows - 1 : 0]
   and row_indexes[0] are read from an array of n_rows elements (finding C09-N3) *)
Definition two_branch_row_span (require_nonempty : bool) (row_indexes : list Z) : res Z :=
  let n := zlen row_indexes in
  if require_nonempty && (n =? 0) then Err E_LIBRARY else
  do last <- get row_indexes (if n =? 0 then 0 else n - 1);
  do first <- get row_indexes 0;
  Ok (last - first + 1).

(* ------------------------------------------------------------------------------------ *)
(* 4. Positions.  IEEE comparison classes: every comparison with NaN is false. *)
Inductive fl := Fin (z : Z) | PInf | NInf | NaN.

Definition fl_lt (a b : fl) : bool :=
  match a, b with
  | NaN, _ | _, NaN => false
  | Fin x, Fin y => x <? y
  | NInf, NInf => false | NInf, _ => true
  | _, NInf => false
  | PInf, _ => false
  | Fin _, PInf => true
  end.
Definition fl_le (a b : fl) : bool :=
  match a, b with
  | NaN, _ | _, NaN => false
  | Fin x, Fin y => x <=? y
  | NInf, _ => true
  | _, NInf => false
  | PInf, PInf => true | PInf, _ => false
  | Fin _, PInf => true
  end.
Definition fl_ge a b := fl_le b a.
Definition fl_is_finite (a : fl) : bool := match a with Fin _ => true | _ => false end.

(* python/tskit/trees.py Tree.seek (l.864) and trees.c tsk_tree_seek (l.6587-6600):
   `x < 0 || x >= L` ; true = reject *)
Definition seek_guard (x : fl) (L : Z) : bool := fl_lt x (Fin 0) || fl_ge x (Fin L).
(* repaired: reject unless 0 <= x < L *)
Definition seek_guard_repaired (x : fl) (L : Z) : bool := negb (fl_le (Fin 0) x && fl_lt x (Fin L)).

(* tsk_tree_position_in_interval (l.6475-6479) for tree i of breakpoints b_0 .. b_T;
   the null state (index -1) has the empty interval [0, 0) *)
Definition in_interval (bps : list Z) (i : Z) (x : fl) : res bool :=
  if i =? -1 then Ok false else
  do l <- get bps i; do r <- get bps (i + 1);
  Ok (fl_le (Fin l) x && fl_lt x (Fin r)).

(* tsk_tree_next / tsk_tree_prev on the index: past either end the tree is cleared (-1),
   from the null state next = first, prev = last *)
Definition step_index (forward : bool) (num_trees i : Z) : Z :=
  if forward then (if i =? num_trees - 1 then -1 else i + 1)
  else (if i =? -1 then num_trees - 1 else i - 1).

(* tsk_tree_seek_linear (l.6545-6584): `while (!in_interval(x)) next()` (or prev()) *)
Fixpoint seek_loop (fuel : nat) (forward : bool) (bps : list Z) (num_trees i : Z) (x : fl) : res Z :=
  match fuel with
  | O => Fuel
  | S f =>
      do inside <- in_interval bps i x;
      if inside then Ok i else seek_loop f forward bps num_trees (step_index forward num_trees i) x
  end.

(* direction chosen by tsk_tree_seek_linear; with NaN both distances are NaN and
   `distance_right <= distance_left` is false: prev() *)
Definition seek_direction (bps : list Z) (i L : Z) (x : fl) : res bool :=
  match x with
  | Fin z =>
      do tl <- get bps i; do tr <- get bps (i + 1);
      if z <? tl then Ok ((L - tr + z) <=? (tl - z)) else Ok ((z - tr) <=? (tl + L - z))
  | _ => Ok false
  end.

(* tsk_tree_seek: guard, then from the null state tsk_tree_seek_from_null (binary search on
   the breakpoints: NaN compares false everywhere and yields index 0), else the linear walk *)
Definition tree_seek (repaired : bool) (fuel : nat) (bps : list Z) (num_trees i : Z) (x : fl) : res Z :=
  do L <- get bps num_trees;
  if (if repaired then seek_guard_repaired x L else seek_guard x L) then Err E_VALUE else
  if i =? -1 then
    match x with
    | Fin _ => seek_loop fuel true bps num_trees 0 x
    | _ => Ok 0
    end
  else
    do fwd <- seek_direction bps i L x;
    seek_loop fuel fwd bps num_trees i x.

(* Tree.seek_index (trees.py: negative indices wrap, IndexError) + tsk_tree_seek_index
   (l.6529-6543): breakpoints has num_trees + 1 elements *)
Definition tree_seek_index (bps : list Z) (num_trees index : Z) : res Z :=
  let i := if index <? 0 then index + num_trees else index in
  if (i <? 0) || (i >=? num_trees) then Err E_VALUE else
  if (i <? 0) || (i >=? num_trees) then Err E_LIBRARY else
  get bps i.

(* trees.c tsk_treeseq_check_windows (l.1196-1238, TSK_REQUIRE_FULL_SPAN branch used by the
   general statistics): windows has num_windows + 1 elements *)
Fixpoint windows_increasing (repaired : bool) (w : list fl) : bool :=
  match w with
  | a :: ((b :: _) as rest) =>
      (if repaired then fl_lt a b else negb (fl_ge a b)) && windows_increasing repaired rest
  | _ => true
  end.

Definition fl_eq (a b : fl) : bool := fl_le a b && fl_ge a b.

Definition check_windows (repaired : bool) (L : Z) (w : list fl) : bool :=   (* true = accepted *)
  match w with
  | [] | [_] => false                                  (* num_windows < 1 *)
  | w0 :: _ =>
      fl_eq w0 (Fin 0)                                 (* windows[0] != 0 -> error *)
      && fl_eq (last w NaN) (Fin L)                    (* windows[num_windows] != L -> error *)
      && windows_increasing repaired w
  end.

Fixpoint strictly_increasing (w : list fl) : Prop :=
  match w with
  | a :: ((b :: _) as rest) => fl_lt a b = true /\ strictly_increasing rest
  | _ => True
  end.

(* ------------------------------------------------------------------------------------ *)
(* 5. map_mutations: Tree_map_mutations (module l.12593-12598: genotypes must have
      num_samples elements) and tsk_tree_map_mutations (trees.c l.7252-7266): genotype range
      [-1, 64), allele_count[64] indexed by allele < num_alleles <= 64 *)
Definition HARTIGAN_MAX_ALLELES : Z := 64.   (* #define in trees.c; compared with the re-read C09_hartigan_max_alleles on every run *)

Fixpoint genotypes_scan (genotypes : list Z) (j : Z) (n : nat) (max_allele : Z) : res Z :=
  match n with
  | O => Ok max_allele
  | S n' =>
      do g <- get genotypes j;
      if (g >=? HARTIGAN_MAX_ALLELES) || (g <? -1) then Err E_LIBRARY else
      genotypes_scan genotypes (j + 1) n' (Z.max g max_allele)
  end.

Definition map_mutations_entry (check_length : bool) (num_samples : Z) (genotypes : list Z)
           (ancestral : option Z) : res Z :=
  if check_length && negb (zlen genotypes =? num_samples) then Err E_VALUE else
  do m <- genotypes_scan genotypes 0 (Z.to_nat num_samples) 0;
  if forallb (fun g => g =? -1) (firstn (Z.to_nat num_samples) genotypes) then Err E_LIBRARY (* all missing *) else
  let num_alleles := m + 1 in
  match ancestral with
  | None => Ok num_alleles
  | Some a => if (a <? 0) || (a >=? HARTIGAN_MAX_ALLELES) then Err E_LIBRARY
              else Ok (Z.max num_alleles (a + 1))
  end.

(* allele_count[allele] for allele < num_alleles, on the stack array of 64 counters *)
Definition allele_count_access (num_alleles allele : Z) : res Z :=
  if (0 <=? allele) && (allele <? num_alleles) then get (alloc HARTIGAN_MAX_ALLELES 0) allele else Ok 0.
