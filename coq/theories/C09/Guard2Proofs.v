From Coq Require Import List ZArith Bool Lia.
From TskVerif Require Import Base.Common C09.Guards C09.GuardProofs C09.Guards2.
Import ListNotations.
Open Scope Z_scope.

Lemma read_all_in_range arr N ids :
  zlen arr = N -> Forall (fun u => 0 <= u < N) ids -> read_all arr ids <> OOB.
Proof.
  intros L F. induction F as [|u r Hu Hr IH]; simpl; [discriminate|].
  destruct ((u <? 0) || (u >=? zlen arr)) eqn:E.
  { apply orb_true_iff in E as [E|E]; [apply Z.ltb_lt in E | apply Z.geb_le in E]; lia. }
  destruct (get_in arr u) as [a Ha]; [lia|]. rewrite Ha. simpl. exact IH.
Qed.

Lemma check_sites_strict_range n : forall sites,
  check_sites true n sites = Ok tt -> Forall (fun u => 0 <= u < n) sites.
Proof.
  induction sites as [|s rest IH]; intro H; [constructor|].
  simpl in H. destruct rest as [|s' rest'].
  - destruct ((s <? 0) || (s >=? n)) eqn:E; [discriminate|]. apply orb_false_iff in E as [E1 E2].
    constructor; [lia | constructor].
  - destruct ((s <? 0) || (s >=? n)) eqn:E; [discriminate|]. apply orb_false_iff in E as [E1 E2].
    destruct (s >? s'); [discriminate|]. destruct (s =? s'); [discriminate|].
    constructor; [lia | apply IH; exact H].
Qed.

Lemma check_sites_not_OOB b n sites : check_sites b n sites <> OOB.
Proof.
  induction sites as [|s rest IH]; simpl; [discriminate|]. destruct rest as [|s' rest'].
  - destruct (_ || _); discriminate.
  - destruct (_ || _); [discriminate|]. destruct (s >? s'); [discriminate|].
    destruct (s =? s'); [discriminate | exact IH].
Qed.

Theorem guard_implies_in_bounds_two_locus_sites n per_site rows cols :
  zlen per_site = n -> two_locus_sites_entry true n per_site rows cols <> OOB.
Proof.
  intro L. unfold two_locus_sites_entry.
  apply bind_not_OOB; [apply check_sites_not_OOB|]. intros [] Hr.
  apply bind_not_OOB; [apply check_sites_not_OOB|]. intros [] Hc.
  apply bind_not_OOB; [apply read_all_in_range with n; [exact L | apply check_sites_strict_range; exact Hr]|].
  intros _ _. apply read_all_in_range with n; [exact L | apply check_sites_strict_range; exact Hc].
Qed.

(* the seeded change C09-2: `>` in the check of the last element *)
Theorem check_sites_last_gt_mutant_refuted :
  exists n per_site rows cols, zlen per_site = n /\ two_locus_sites_entry false n per_site rows cols = OOB.
Proof. exists 2, [0; 0], [0; 2], [0]. split; vm_compute; reflexivity. Qed.

Lemma mark_reference_set_ok N K k : forall set0 ref,
  0 <= k < K - 1 -> 0 <= N -> zlen ref = N * K ->
  mark_reference_set N K k ref set0 <> OOB /\
  forall r, mark_reference_set N K k ref set0 = Ok r -> zlen r = N * K.
Proof.
  induction set0 as [|u rest IH]; intros ref HK HN L; simpl.
  - split; [discriminate | intros r H; inversion H; subst; exact L].
  - destruct ((u <? 0) || (u >=? N)) eqn:E; [split; [discriminate | intros; discriminate]|].
    apply orb_false_iff in E as [E1 E2].
    assert (0 <= u * K + k < N * K) as B1 by nia.
    assert (0 <= u * K + (K - 1) < N * K) as B2 by nia.
    destruct (set_in ref (u * K + k) 1) as [r1 [H1 L1]]; [lia|]. rewrite H1. simpl.
    destruct (set_in r1 (u * K + (K - 1)) 1) as [r2 [H2 L2]]; [lia|]. rewrite H2. simpl.
    apply IH; [assumption | assumption | lia].
Qed.

Lemma mark_reference_sets_ok N K : forall sets k ref,
  0 <= k -> k + zlen sets <= K - 1 -> 0 <= N -> zlen ref = N * K ->
  mark_reference_sets N K k ref sets <> OOB.
Proof.
  induction sets as [|s rest IH]; intros k ref Hk HK HN L; simpl; [discriminate|].
  assert (zlen (s :: rest) = zlen rest + 1) as ZL by (unfold zlen; simpl; lia).
  pose proof (zlen_nonneg rest).
  destruct (mark_reference_set_ok N K k s ref ltac:(lia) HN L) as [A1 A2].
  apply bind_not_OOB; [exact A1|]. intros r Hr. apply IH; [lia | lia | assumption | apply A2; exact Hr].
Qed.

Theorem guard_implies_in_bounds_mean_descendants N sets :
  0 <= N -> mean_descendants_init N sets <> OOB.
Proof.
  intro HN. unfold mean_descendants_init. pose proof (zlen_nonneg sets).
  apply mark_reference_sets_ok; [lia | lia | assumption | apply zlen_alloc; nia].
Qed.

Theorem guard_implies_in_bounds_gnn N per_node sets focal :
  0 <= N -> zlen per_node = N -> gnn_init N per_node sets focal <> OOB.
Proof.
  intros HN L. unfold gnn_init.
  apply bind_not_OOB; [apply ibd_between_sets_strict_not_OOB; apply zlen_alloc; exact HN|]. intros _ _.
  destruct (existsb _ focal) eqn:E; [discriminate|].
  apply read_all_in_range with N; [exact L|].
  apply Forall_forall. intros u Hu.
  assert ((fun u => (u <? 0) || (u >=? N)) u = false) as F.
  { destruct ((u <? 0) || (u >=? N)) eqn:G; [|reflexivity].
    assert (existsb (fun u => (u <? 0) || (u >=? N)) focal = true) by (apply existsb_exists; eauto). congruence. }
  simpl in F. apply orb_false_iff in F. lia.
Qed.

Lemma ids_in_range_forall N ids : ids_in_range N ids = true -> Forall (fun u => 0 <= u < N) ids.
Proof.
  unfold ids_in_range. intro H. apply Forall_forall. intros u Hu.
  rewrite forallb_forall in H. specialize (H u Hu). apply andb_true_iff in H. lia.
Qed.

Theorem guard_implies_in_bounds_delete_older_repaired N node_time ep mn :
  zlen node_time = N -> delete_older_entry true N node_time ep mn <> OOB.
Proof.
  intro L. unfold delete_older_entry. simpl.
  destruct (ids_in_range N ep) eqn:E1; simpl; [|discriminate].
  destruct (ids_in_range N mn) eqn:E2; simpl; [|discriminate].
  apply bind_not_OOB; [apply read_all_in_range with N; [exact L | apply ids_in_range_forall; exact E1]|].
  intros _ _. apply read_all_in_range with N; [exact L | apply ids_in_range_forall; exact E2].
Qed.

Theorem delete_older_no_integrity_check_refuted :
  exists N node_time ep mn, zlen node_time = N /\ delete_older_entry false N node_time ep mn = OOB.
Proof. exists 2, [0; 1], [-1], []. split; vm_compute; reflexivity. Qed.

Theorem guard_implies_in_bounds_ibd_run_repaired N node_time amap ep ec :
  zlen node_time = N -> zlen amap = N -> ibd_run_entry true N node_time amap ep ec <> OOB.
Proof.
  intros L1 L2. unfold ibd_run_entry. simpl.
  destruct (ids_in_range N ep) eqn:E1; simpl; [|discriminate].
  destruct (ids_in_range N ec) eqn:E2; simpl; [|discriminate].
  apply bind_not_OOB; [apply read_all_in_range with N; [exact L1 | apply ids_in_range_forall; exact E1]|].
  intros _ _.
  apply bind_not_OOB; [apply read_all_in_range with N; [exact L2 | apply ids_in_range_forall; exact E2]|].
  intros _ _. apply read_all_in_range with N; [exact L2 | apply ids_in_range_forall; exact E1].
Qed.

Theorem ibd_run_no_integrity_check_refuted :
  exists N node_time amap ep ec, zlen node_time = N /\ zlen amap = N /\ ibd_run_entry false N node_time amap ep ec = OOB.
Proof. exists 2, [0; 1], [0; 0], [3], [0]. repeat split; vm_compute; reflexivity. Qed.

Theorem count_topologies_negative_id_refuted :
  exists N flags u i, zlen flags = N /\ u < 0 /\ count_topologies_sample_check false N flags u = Ok i.
Proof. exists 3, [1; 1; 1], (-2), 1. repeat split; try lia; vm_compute; reflexivity. Qed.

Theorem count_topologies_repaired_accepts_only_range N flags u i :
  count_topologies_sample_check true N flags u = Ok i -> 0 <= u < N /\ i = u.
Proof.
  unfold count_topologies_sample_check. simpl. destruct (u <? 0) eqn:E; [discriminate|].
  destruct ((u <? 0) || (u >=? N)) eqn:G; [discriminate|]. apply orb_false_iff in G as [G1 G2].
  destruct (get flags u); simpl; try discriminate. destruct (Z.odd a); [|discriminate].
  intro H; inversion H. lia.
Qed.

Theorem guard_implies_in_bounds_count_topologies b N flags u :
  zlen flags = N -> count_topologies_sample_check b N flags u <> OOB.
Proof.
  intro L. unfold count_topologies_sample_check. destruct (b && (u <? 0)); [discriminate|].
  destruct (_ || _) eqn:G; [discriminate|]. apply orb_false_iff in G as [G1 G2].
  match goal with |- context [get flags ?i] => destruct (get_in flags i) as [f Hf]; [lia|]; rewrite Hf end.
  simpl. destruct (Z.odd f); discriminate.
Qed.

Theorem check_positions_nan_refuted : forall L, check_positions false L [NaN] = true.
Proof. reflexivity. Qed.

Theorem check_positions_repaired_in_range L : forall ps,
  check_positions true L ps = true -> Forall (fun p => exists z, p = Fin z /\ 0 <= z < L) ps.
Proof.
  induction ps as [|p rest IH]; intro H; [constructor|]. simpl in H.
  apply andb_true_iff in H as [H1 H2]. apply negb_true_iff in H1.
  constructor; [apply seek_guard_repaired_passes; exact H1|].
  destruct rest as [|p' r]; [constructor|]. apply IH.
  apply andb_true_iff in H2 as [H2 H3]. apply andb_true_iff in H2 as [_ _]. exact H3.
Qed.

Theorem with_id_parse_preserves_in_bounds {A} checked xs (r : res A) :
  r <> OOB -> with_id_parse checked xs r <> OOB.
Proof. intro H. unfold with_id_parse. destruct (_ && _); [discriminate | exact H]. Qed.

Example ex_sites_ok : two_locus_sites_entry true 3 [0; 0; 0] [0; 2] [1] = Ok tt.
Proof. reflexivity. Qed.
Example ex_sites_last_rejected : two_locus_sites_entry true 3 [0; 0; 0] [0; 3] [1] = Err E_LIBRARY.
Proof. reflexivity. Qed.
Example ex_mean_desc : is_ok (mean_descendants_init 3 [[0; 1]; [2]]) = true.
Proof. reflexivity. Qed.
Example ex_gnn_dup : gnn_init 3 [0; 0; 0] [[0]; [0]] [1] = Err E_LIBRARY.
Proof. reflexivity. Qed.
Example ex_delete_older_checked : delete_older_entry true 2 [0; 1] [-1] [] = Err E_LIBRARY.
Proof. reflexivity. Qed.
Example ex_count_topologies : count_topologies_sample_check true 3 [1; 1; 0] 1 = Ok 1.
Proof. reflexivity. Qed.
