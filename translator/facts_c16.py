"""C16 facts, re-extracted from /repo on every run (Python ast, fail-closed):

  * which mask the position-zero check of VcfWriter.__init__ inverts:
        np.any(self.transformed_positions[~site_mask] == 0)       raw argument  (finding F6)
        np.any(self.transformed_positions[~self.site_mask] == 0)  normalised mask (the repair)
    -> c16_poszero_uses_raw_site_mask : bool.  The correspondence evaluates the model
    variant that the code currently has (C16.Model.vcf_body_current), so the one-word
    repair in /repo is followed without editing the model;
  * __make_sample_mapping: whether a tree sequence without sample nodes is rejected with a
    ValueError (`if ts.num_samples == 0: raise ValueError`) -> c16_zero_samples_rejected, and
    whether an individual must consist of sample nodes only (`is_sample != {True}`) or merely of
    one kind (`len(is_sample) != 1`) -> c16_individuals_must_be_samples.  Both are false at the
    pinned commit (known low-severity findings); the repairs in /verif/fixes/C16-*.diff flip
    them and the model follows;
  * the allele limit of VcfWriter.write (`if variant.num_alleles > 9`) -> c16_max_alleles.
"""
import ast


def wrapper_facts(read, die):
    """TreeSequence.write_vcf hands every one of its parameters to VcfWriter under the same name,
    and as_vcf hands *args/**kwargs to write_vcf."""
    tree = ast.parse(read("python/tskit/trees.py"))
    cls = [n for n in tree.body if isinstance(n, ast.ClassDef) and n.name == "TreeSequence"]
    if len(cls) != 1:
        die("facts_c16: class TreeSequence not found")
    fns = {n.name: n for n in cls[0].body if isinstance(n, ast.FunctionDef)}
    for name in ("write_vcf", "as_vcf"):
        if name not in fns:
            die("facts_c16: TreeSequence.%s not found" % name)
    wv = fns["write_vcf"]
    params = [a.arg for a in wv.args.args[2:]] + [a.arg for a in wv.args.kwonlyargs]   # after self, output
    if wv.args.vararg or wv.args.kwarg or [a.arg for a in wv.args.args[:2]] != ["self", "output"]:
        die("facts_c16: unexpected signature of write_vcf")
    calls = [n for n in ast.walk(wv) if isinstance(n, ast.Call) and isinstance(n.func, ast.Attribute)
             and n.func.attr == "VcfWriter"]
    if len(calls) != 1 or len(calls[0].args) != 1 or getattr(calls[0].args[0], "id", None) != "self":
        die("facts_c16: expected exactly one vcf.VcfWriter(self, ...) call in write_vcf")
    forwarded = []
    for k in calls[0].keywords:
        if k.arg is None or not isinstance(k.value, ast.Name):
            die("facts_c16: VcfWriter keyword %r is not a plain name" % k.arg)
        forwarded.append(k.arg + "=" + k.value.id)
    # parameters may only be rebound by `if x is None: x = <constant>` (documented defaults)
    for n in ast.walk(wv):
        if isinstance(n, ast.Assign):
            for t in n.targets:
                if isinstance(t, ast.Name) and t.id in params and not isinstance(n.value, ast.Constant):
                    die("facts_c16: write_vcf rebinds parameter %s to a non-constant" % t.id)
    wcalls = [n for n in ast.walk(wv) if isinstance(n, ast.Call) and isinstance(n.func, ast.Attribute)
              and n.func.attr == "write" and getattr(n.func.value, "id", None) == "writer"]
    if len(wcalls) != 1 or [getattr(a, "id", None) for a in wcalls[0].args] != ["output"]:
        die("facts_c16: write_vcf does not end in writer.write(output)")
    av = fns["as_vcf"]
    ok = av.args.vararg is not None and av.args.kwarg is not None
    acalls = [n for n in ast.walk(av) if isinstance(n, ast.Call) and isinstance(n.func, ast.Attribute)
              and n.func.attr == "write_vcf"]
    ok = ok and len(acalls) == 1 and len(acalls[0].args) == 2 and isinstance(acalls[0].args[1], ast.Starred) \
        and getattr(acalls[0].args[1].value, "id", None) == av.args.vararg.arg \
        and len(acalls[0].keywords) == 1 and acalls[0].keywords[0].arg is None \
        and getattr(acalls[0].keywords[0].value, "id", None) == av.args.kwarg.arg
    return params, forwarded, ok


def cstrs(xs):
    for x in xs:
        if not all(c.isalnum() or c in "_=" for c in x):
            raise ValueError(x)
    return "[" + "; ".join('"%s"%%string' % x for x in xs) + "]"


def facts(read, die, define):
    tree = ast.parse(read("python/tskit/vcf.py"))
    cls = [n for n in tree.body if isinstance(n, ast.ClassDef) and n.name == "VcfWriter"]
    if len(cls) != 1:
        die("facts_c16: class VcfWriter not found")
    fns = {n.name: n for n in cls[0].body if isinstance(n, ast.FunctionDef)}
    if "__init__" not in fns or "write" not in fns:
        die("facts_c16: VcfWriter.__init__ / write not found")
    inverted = []
    for node in ast.walk(fns["__init__"]):
        if (isinstance(node, ast.Subscript) and isinstance(node.value, ast.Attribute)
                and node.value.attr == "transformed_positions"
                and isinstance(node.slice, ast.UnaryOp) and isinstance(node.slice.op, ast.Invert)):
            op = node.slice.operand
            if isinstance(op, ast.Name) and op.id == "site_mask":
                inverted.append(True)
            elif (isinstance(op, ast.Attribute) and op.attr == "site_mask"
                  and isinstance(op.value, ast.Name) and op.value.id == "self"):
                inverted.append(False)
            else:
                die("facts_c16: unrecognised operand of ~ in the position-zero check")
    if len(inverted) != 1:
        die("facts_c16: expected exactly one transformed_positions[~mask] in VcfWriter.__init__")
    limits = []
    for st in ast.walk(fns["write"]):
        if not (isinstance(st, ast.If) and st.body and isinstance(st.body[0], ast.Raise)):
            continue
        node = st.test
        if (isinstance(node, ast.Compare) and isinstance(node.left, ast.Attribute)
                and node.left.attr == "num_alleles" and len(node.ops) == 1
                and isinstance(node.ops[0], ast.Gt) and isinstance(node.comparators[0], ast.Constant)):
            limits.append(int(node.comparators[0].value))
    if len(limits) != 1:
        die("facts_c16: expected exactly one `num_alleles > k` test in VcfWriter.write")
    mapping = [n for n in cls[0].body if isinstance(n, ast.FunctionDef) and n.name.endswith("__make_sample_mapping")]
    if len(mapping) != 1:
        die("facts_c16: VcfWriter.__make_sample_mapping not found")
    zero_guard, strict = [], []
    for st in ast.walk(mapping[0]):
        if not (isinstance(st, ast.If) and st.body and isinstance(st.body[0], ast.Raise)):
            continue
        t = st.test
        if not (isinstance(t, ast.Compare) and len(t.ops) == 1):
            continue
        names = {n.attr for n in ast.walk(t) if isinstance(n, ast.Attribute)} | {n.id for n in ast.walk(t) if isinstance(n, ast.Name)}
        if "num_samples" in names and isinstance(t.ops[0], ast.Eq) and isinstance(t.comparators[0], ast.Constant) \
                and t.comparators[0].value == 0 and isinstance(t.left, ast.Attribute):
            exc = st.body[0].exc
            if not (isinstance(exc, ast.Call) and getattr(exc.func, "id", None) == "ValueError"):
                die("facts_c16: the zero-sample guard does not raise ValueError")
            zero_guard.append(True)
        if "is_sample" in names:
            if (isinstance(t.left, ast.Call) and getattr(t.left.func, "id", None) == "len"
                    and isinstance(t.ops[0], ast.NotEq) and isinstance(t.comparators[0], ast.Constant)
                    and t.comparators[0].value == 1):
                strict.append(False)
            elif (isinstance(t.left, ast.Name) and t.left.id == "is_sample" and isinstance(t.ops[0], ast.NotEq)
                  and isinstance(t.comparators[0], ast.Set) and len(t.comparators[0].elts) == 1
                  and isinstance(t.comparators[0].elts[0], ast.Constant) and t.comparators[0].elts[0].value is True):
                strict.append(True)
            else:
                die("facts_c16: unrecognised test on is_sample in __make_sample_mapping")
    if len(strict) != 1 or len(zero_guard) > 1:
        die("facts_c16: expected exactly one is_sample test and at most one zero-sample guard")
    params, forwarded, as_ok = wrapper_facts(read, die)
    wrapper = ["Definition c16_write_vcf_params : list string := %s." % cstrs(params),
               "Definition c16_vcfwriter_keywords : list string := %s." % cstrs(forwarded),
               "Definition c16_as_vcf_forwards_all : bool := %s." % ("true" if as_ok else "false")]
    return wrapper + ["Definition c16_zero_samples_rejected : bool := %s." % ("true" if zero_guard else "false"),
            "Definition c16_individuals_must_be_samples : bool := %s." % ("true" if strict[0] else "false"),
            "Definition c16_poszero_uses_raw_site_mask : bool := %s." % ("true" if inverted[0] else "false"),
            "Definition c16_max_alleles : Z := %d." % limits[0]]
