"""C12 facts, re-extracted from /repo/python/tskit/metadata.py on every run (Python `ast`,
fail-closed): the binaryFormat / arrayLengthFormat regexes of the struct meta-schema, the
FORMAT_TO_DTYPE table of StructCodec.numpy_dtype, the arrayLengthFormat default, and the
struct sizes (CPython `struct.calcsize('<' + c)`, trusted base) of every format character
the regexes admit.  Characters are emitted as their ASCII codes (Z)."""
import ast
import re
import struct


def _subscript_path(node):
    """struct_meta_schema["a"]["b"] -> ("struct_meta_schema", ["a", "b"]) or None."""
    keys = []
    while isinstance(node, ast.Subscript):
        k = node.slice
        if not (isinstance(k, ast.Constant) and isinstance(k.value, str)):
            return None
        keys.append(k.value)
        node = node.value
    if isinstance(node, ast.Name):
        return node.id, keys[::-1]
    return None


def facts(read, die, define):
    rel = "python/tskit/metadata.py"
    tree = ast.parse(read(rel))
    pats, defaults = {}, {}
    for node in ast.walk(tree):
        if isinstance(node, ast.Assign) and len(node.targets) == 1:
            p = _subscript_path(node.targets[0])
            if p and p[0] == "struct_meta_schema" and p[1][:1] == ["properties"] and len(p[1]) == 2 \
                    and isinstance(node.value, ast.Dict):
                try:
                    d = ast.literal_eval(node.value)
                except Exception:
                    continue
                if "pattern" in d:
                    if p[1][1] in pats:
                        die("C12: %s pattern assigned twice" % p[1][1])
                    pats[p[1][1]] = d["pattern"]
                if "default" in d:
                    defaults[p[1][1]] = d["default"]
    if set(pats) != {"binaryFormat", "arrayLengthFormat"}:
        die("C12: expected exactly the binaryFormat and arrayLengthFormat patterns, found %r" % sorted(pats))
    # accepted shapes:  ^([singles]|\d*[counted])$   and, with a zero count forbidden for Pascal
    # strings,          ^([singles]|\d*[counted-without-p]|p|0*[1-9]\d*p)$
    pat = pats["binaryFormat"]
    if not (pat.startswith("^(") and pat.endswith(")$")):
        die("C12: unrecognised binaryFormat regex shape %r" % pat)
    alts = pat[2:-2].split("|")
    m = re.fullmatch(r"\[((?:\\.|[^\]\\])+)\]", alts[0])
    m2_ = re.fullmatch(r"\\d\*\[([a-zA-Z]+)\]", alts[1]) if len(alts) > 1 else None
    if not m or not m2_:
        die("C12: unrecognised binaryFormat regex shape %r" % pat)
    single = re.sub(r"\\(.)", r"\1", m.group(1))
    counted = m2_.group(1)
    pascal_zero = True
    if len(alts) == 2:
        pass
    elif alts[2:] == ["p", r"0*[1-9]\d*p"] and "p" not in counted:
        counted = "".join(sorted(counted + "p", key="spx".index)) if set(counted + "p") <= set("spx") else counted + "p"
        pascal_zero = False
    else:
        die("C12: unrecognised binaryFormat regex shape %r" % pat)
    m2 = re.fullmatch(r"\^\[([A-Za-z]+)\]\$", pats["arrayLengthFormat"])
    if not m2:
        die("C12: unrecognised arrayLengthFormat regex shape %r" % pats["arrayLengthFormat"])
    alen = m2.group(1)
    if defaults.get("arrayLengthFormat") is None or defaults["arrayLengthFormat"] not in alen:
        die("C12: arrayLengthFormat default missing or outside its own pattern")
    # the default the *code* uses: sub_schema.get("arrayLengthFormat", "L") in make_array_encode/decode
    code_defaults = set()
    for node in ast.walk(tree):
        if isinstance(node, ast.Call) and isinstance(node.func, ast.Attribute) and node.func.attr == "get" \
                and len(node.args) == 2 and isinstance(node.args[0], ast.Constant) \
                and node.args[0].value == "arrayLengthFormat" and isinstance(node.args[1], ast.Constant):
            code_defaults.add(node.args[1].value)
    if len(code_defaults) != 1:
        die("C12: expected one default for sub_schema.get('arrayLengthFormat', .), found %r" % code_defaults)
    alen_default = code_defaults.pop()
    # FORMAT_TO_DTYPE inside StructCodec.numpy_dtype
    f2d = None
    for node in ast.walk(tree):
        if isinstance(node, ast.Assign) and len(node.targets) == 1 and isinstance(node.targets[0], ast.Name) \
                and node.targets[0].id == "FORMAT_TO_DTYPE":
            if f2d is not None:
                die("C12: FORMAT_TO_DTYPE assigned twice")
            f2d = ast.literal_eval(node.value)
    if not isinstance(f2d, dict) or not f2d:
        die("C12: FORMAT_TO_DTYPE not found")
    rows = []
    for k, v in f2d.items():
        mm = re.fullmatch(r"([iufS?])(\d*)", v)
        if not (isinstance(k, str) and len(k) == 1 and mm):
            die("C12: unrecognised FORMAT_TO_DTYPE entry %r: %r" % (k, v))
        size = int(mm.group(2)) if mm.group(2) else 1
        rows.append((ord(k), ord(mm.group(1)), size))
    # every prefix the encoders/decoders put in front of binaryFormat must be "<"
    prefixes = set()
    for node in ast.walk(tree):
        if isinstance(node, ast.BinOp) and isinstance(node.op, ast.Add) and isinstance(node.left, ast.Constant) \
                and isinstance(node.left.value, str) and isinstance(node.right, (ast.Subscript, ast.Call)):
            txt = ast.dump(node.right)
            if "binaryFormat" in txt or "arrayLengthFormat" in txt:
                prefixes.add(node.left.value)
    if prefixes != {"<"}:
        die("C12: struct byte-order prefixes used with binaryFormat are %r, expected only '<'" % prefixes)

    # object_encode: does `except KeyError` wrap the nested encoder call (swallowing a KeyError
    # raised inside it), or is the default chosen by a plain membership test?
    swallow = set()
    for fn in ast.walk(tree):
        if isinstance(fn, ast.FunctionDef) and fn.name == "object_encode":
            has_try = any(isinstance(n, ast.Try) and any(
                isinstance(h.type, ast.Name) and h.type.id == "KeyError" for h in n.handlers)
                for n in ast.walk(fn))
            has_in = any(isinstance(n, ast.If) and isinstance(n.test, ast.Compare)
                         and any(isinstance(o, ast.In) for o in n.test.ops) for n in ast.walk(fn))
            if has_try == has_in:
                die("C12: cannot tell how object_encode chooses between obj[key] and the default")
            swallow.add(has_try)
    if len(swallow) != 1:
        die("C12: object_encode definitions disagree or are missing (%r)" % swallow)

    def zl(s):
        return "[" + "; ".join(str(ord(c)) for c in s) + "]"

    def sizes(s):
        return "[" + "; ".join("(%d, %d)" % (ord(c), struct.calcsize("<" + c)) for c in s) + "]"

    return [
        "Definition c12_single_formats : list Z := %s." % zl(single),
        "Definition c12_counted_formats : list Z := %s." % zl(counted),
        "Definition c12_array_length_formats : list Z := %s." % zl(alen),
        "Definition c12_array_length_default : Z := %d." % ord(alen_default),
        "Definition c12_struct_sizes : list (Z * Z) := %s." % sizes(single + counted),
        "Definition c12_pascal_zero_allowed : bool := %s." % ("true" if pascal_zero else "false"),
        "Definition c12_encode_swallows_nested_keyerror : bool := %s." % ("true" if swallow.pop() else "false"),
        "Definition c12_format_to_dtype : list (Z * (Z * Z)) := [%s]."
        % "; ".join("(%d, (%d, %d))" % (a, b, c) for a, b, c in rows),
    ]
