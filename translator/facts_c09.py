"""C09 facts: which comparison the id guards of four loops in c/tskit/tables.c use, and
whether parse_site_table_dict / parse_mutation_table_dict read metadata_offset with
check_num_rows = true.  Fail-closed: an unrecognised shape aborts the check."""
import re


def _func_body(src, name, die):
    m = re.search(r"^%s\s*\(" % re.escape(name), src, re.M)
    if not m:
        die("C09: function %s not found" % name)
    i = src.index("{", m.end())
    depth, j = 0, i
    while j < len(src):
        if src[j] == "{":
            depth += 1
        elif src[j] == "}":
            depth -= 1
            if depth == 0:
                return src[i:j + 1]
        j += 1
    die("C09: unbalanced braces in %s" % name)


def _guard_ge(src, func, var, die):
    body = _func_body(src, func, die)
    v = re.escape(var)
    m = re.findall(r"if\s*\(\s*%s\s*<\s*0\s*\|\|\s*%s\s*(>=|>)\s*\(tsk_id_t\)\s*self->tables->nodes\.num_rows\s*\)" % (v, v), body)
    if len(m) != 1:
        die("C09: expected exactly one `%s < 0 || %s >[=] (tsk_id_t) self->tables->nodes.num_rows` in %s, found %d"
            % (var, var, func, len(m)))
    return m[0] == ">="


def _offset_checked(src, func, die):
    body = _func_body(src, func, die)
    m = re.findall(r"metadata_offset_array\s*=\s*table_read_offset_array\(\s*metadata_offset_input,\s*&num_rows,\s*metadata_length,\s*(true|false)\s*\)", body)
    if len(m) != 1:
        die("C09: expected one table_read_offset_array(metadata_offset_input, ...) in %s, found %d" % (func, len(m)))
    return m[0] == "true"


def facts(read, die, define):
    t = read("c/tskit/tables.c")
    lw = read("python/lwt_interface/tskit_lwt_interface.h")

    def b(x):
        return "true" if x else "false"
    out = [
        "Definition C09_ibd_within_ge : bool := %s." % b(_guard_ge(t, "tsk_ibd_finder_init_samples_from_set", "u", die)),
        "Definition C09_ibd_between_ge : bool := %s." % b(_guard_ge(t, "tsk_ibd_finder_init_between", "u", die)),
        "Definition C09_ancestor_mapper_samples_ge : bool := %s." % b(_guard_ge(t, "ancestor_mapper_init_samples", "samples[j]", die)),
        "Definition C09_ancestor_mapper_ancestors_ge : bool := %s." % b(_guard_ge(t, "ancestor_mapper_init_ancestors", "ancestors[j]", die)),
        "Definition C09_site_metadata_offset_checked : bool := %s." % b(_offset_checked(lw, "parse_site_table_dict", die)),
        "Definition C09_mutation_metadata_offset_checked : bool := %s." % b(_offset_checked(lw, "parse_mutation_table_dict", die)),
    ]
    # F4: is NaN rejected by Tree.seek (python) or tsk_tree_seek (C)?
    seek_c = _func_body(read("c/tskit/trees.c"), "tsk_tree_seek", die)
    if re.search(r"if\s*\(\s*x\s*<\s*0\s*\|\|\s*x\s*>=\s*L\s*\)", seek_c):
        c_safe = False
    elif re.search(r"isnan|isfinite|!\s*\(\s*x\s*>=\s*0\s*&&\s*x\s*<\s*L\s*\)", seek_c):
        c_safe = True
    else:
        die("C09: unrecognised bounds guard in tsk_tree_seek")
    py = read("python/tskit/trees.py")
    mm = re.search(r"\n    def seek\(self, position\):.*?\n    def ", py, re.S)
    if not mm:
        die("C09: Tree.seek not found in trees.py")
    body = re.sub(r'"""(.*?)"""', "", mm.group(0), flags=re.S)
    if re.search(r"isnan|isfinite|not\s*\(?\s*0\s*<=\s*position\s*<", body):
        py_safe = True
    elif re.search(r"if\s+position\s*<\s*0\s+or\s+position\s*>=", body):
        py_safe = False
    else:
        die("C09: unrecognised bounds guard in Tree.seek")
    out.append("Definition C09_seek_rejects_nan : bool := %s." % b(c_safe or py_safe))
    # N4: does the ordering loop of tsk_treeseq_check_windows reject NaN boundaries?
    cw = _func_body(read("c/tskit/trees.c"), "tsk_treeseq_check_windows", die)
    if re.search(r"if\s*\(\s*!\s*\(\s*windows\[j\]\s*<\s*windows\[j\s*\+\s*1\]\s*\)\s*\)", cw):
        w_safe = True
    elif re.search(r"if\s*\(\s*windows\[j\]\s*>=\s*windows\[j\s*\+\s*1\]\s*\)", cw):
        w_safe = bool(re.search(r"isnan|isfinite", cw))
    else:
        die("C09: unrecognised ordering check in tsk_treeseq_check_windows")
    out.append("Definition C09_windows_reject_nan : bool := %s." % b(w_safe))
    # N1: how Tree_get_node_argument parses the node id
    tm = read("python/_tskitmodule.c")
    body = _func_body(tm, "Tree_get_node_argument", die)
    mm = re.search(r'PyArg_ParseTuple\(args,\s*"([^"]+)"', body)
    if not mm:
        die("C09: no PyArg_ParseTuple in Tree_get_node_argument")
    if mm.group(1) == "I":
        parse_checked = False
    elif mm.group(1) in ("i", "O&"):
        parse_checked = True
    else:
        die("C09: unrecognised id format %r in Tree_get_node_argument" % mm.group(1))
    out.append("Definition C09_tree_id_parse_checked : bool := %s." % b(parse_checked))
    # column parsing order / check flags of every parse_<table>_table_dict
    for tname, fn in (("individuals", "parse_individual_table_dict"), ("nodes", "parse_node_table_dict"),
                      ("edges", "parse_edge_table_dict"), ("migrations", "parse_migration_table_dict"),
                      ("sites", "parse_site_table_dict"), ("mutations", "parse_mutation_table_dict"),
                      ("populations", "parse_population_table_dict"), ("provenances", "parse_provenance_table_dict")):
        body = _func_body(lw, fn, die)
        calls = re.findall(r"table_read_(column|offset)_array\(\s*(\w+)_input,\s*(?:NPY_\w+,\s*)?&(\w+),\s*"
                           r"(?:\w+,\s*)?(true|false)\s*\)", body)
        n_all = len(re.findall(r"table_read_(?:column|offset)_array\(", body))
        if not calls or len(calls) != n_all:
            die("C09: unrecognised table_read_*_array call in %s (%d of %d parsed)" % (fn, len(calls), n_all))
        spec = [(name, kind == "offset", flag == "true") for kind, name, var, flag in calls if var == "num_rows"]
        if not spec:
            die("C09: no num_rows column in %s" % fn)
        out.append("Definition C09_columns_%s : list (string * (bool * bool)) := [%s]." % (
            tname, "; ".join('("%s"%%string, (%s, %s))' % (nm, b(io), b(ck)) for nm, io, ck in spec)))
    # N10: does genetic_relatedness_weighted validate its index tuples?
    gw = _func_body(read("c/tskit/trees.c"), "tsk_treeseq_genetic_relatedness_weighted", die)
    out.append("Definition C09_relatedness_weighted_checks_indexes : bool := %s."
               % b(bool(re.search(r"check_set_indexes\s*\(", gw))))
    # C09-9 class: the guard of the index copy in tsk_table_collection_copy
    cp = _func_body(t, "tsk_table_collection_copy", die)
    mm = re.search(r"if\s*\(([^{]*?)\)\s*\{\s*ret\s*=\s*tsk_table_collection_set_indexes\(", cp, re.S)
    if not mm:
        die("C09: index copy not found in tsk_table_collection_copy")
    cond = " ".join(mm.group(1).split())
    if re.fullmatch(r"tsk_table_collection_has_index\(self, 0\)", cond):
        copy_ok = True
    elif "num_edges" in cond and "num_rows" in cond:
        copy_ok = True
    elif "edge_insertion_order" in cond:
        copy_ok = False
    else:
        die("C09: unrecognised guard of the index copy: %s" % cond)
    hi = _func_body(t, "tsk_table_collection_has_index", die)
    if not re.search(r"indexes\.num_edges\s*==\s*self->edges\.num_rows", hi):
        copy_ok = False
    out.append("Definition C09_copy_checks_has_index : bool := %s." % b(copy_ok))
    # C09-11 class: parent validation of tsk_mutation_table_keep_rows
    mk = _func_body(t, "tsk_mutation_table_keep_rows", die)
    if re.search(r"if\s*\(\s*pj\s*!=\s*TSK_NULL\s*\)\s*\{\s*if\s*\(\s*pj\s*<\s*0\s*\|\|\s*pj\s*>=", mk):
        mk_strict = True
    elif re.search(r"if\s*\(\s*pj\s*>=\s*0\s*\)", mk):
        mk_strict = False
    else:
        die("C09: unrecognised parent validation in tsk_mutation_table_keep_rows")
    out.append("Definition C09_mutation_keep_rows_strict : bool := %s." % b(mk_strict))
    # C09-12 class: the integrity check at the entry of deduplicate_sites
    dd = _func_body(t, "tsk_table_collection_deduplicate_sites", die)
    if re.search(r"tsk_table_collection_check_integrity\(\s*self,\s*TSK_CHECK_SITE_ORDERING\s*\)", dd):
        dd_full = True
    elif re.search(r"check_site_integrity\(", dd):
        dd_full = False
    else:
        die("C09: unrecognised integrity check in tsk_table_collection_deduplicate_sites")
    out.append("Definition C09_dedup_full_integrity : bool := %s." % b(dd_full))
    m = re.search(r"^#define\s+HARTIGAN_MAX_ALLELES\s+(\d+)", read("c/tskit/trees.c"), re.M)
    if not m:
        die("C09: HARTIGAN_MAX_ALLELES")
    out.append("Definition C09_hartigan_max_alleles : Z := %s." % m.group(1))
    return out
