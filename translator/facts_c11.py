"""C11 facts: which variant of ltrim / _check_trim_conditions the source contains.

The Gallina model (coq/theories/C11/Model.v) has the code-as-it-exists and the repaired
variant of ltrim side by side (findings F7, F14).  Which of them the correspondence compares
with the implementation is decided here, from the source, on every run:
  C11_ltrim_passes_edge_metadata       ltrim's self.edges.set_columns(...) passes metadata
  C11_ltrim_passes_migration_metadata  ltrim's self.migrations.set_columns(...) passes metadata
  C11_trim_check_uses_or               _check_trim_conditions joins its two tests with `or`
Fail-closed: any other shape of these calls aborts the check.
"""
import ast


def facts(read, die, define):
    rel = "python/tskit/tables.py"
    try:
        tree = ast.parse(read(rel))
    except SyntaxError as e:
        die("C11: cannot parse %s: %s" % (rel, e))
    cls = [n for n in tree.body if isinstance(n, ast.ClassDef) and n.name == "TableCollection"]
    if len(cls) != 1:
        die("C11: class TableCollection not found in %s" % rel)
    fn = {n.name: n for n in cls[0].body if isinstance(n, ast.FunctionDef)}
    for need in ("ltrim", "rtrim", "trim", "_check_trim_conditions", "keep_intervals",
                 "delete_intervals", "delete_sites", "delete_older"):
        if need not in fn:
            die("C11: TableCollection.%s not found" % need)

    def set_columns_kwargs(f, table):
        calls = [c for c in ast.walk(f)
                 if isinstance(c, ast.Call) and isinstance(c.func, ast.Attribute)
                 and c.func.attr == "set_columns" and isinstance(c.func.value, ast.Attribute)
                 and c.func.value.attr == table and isinstance(c.func.value.value, ast.Name)
                 and c.func.value.value.id == "self"]
        if len(calls) != 1 or calls[0].args:
            die("C11: expected exactly one keyword-only self.%s.set_columns(...) in ltrim" % table)
        return sorted(k.arg or "**" for k in calls[0].keywords)

    def variant(got, base, what):
        if got == sorted(base):
            return False
        if got == sorted(base + ["metadata", "metadata_offset"]):
            return True
        die("C11: unrecognised column list %r in ltrim's %s.set_columns" % (got, what))

    edge_md = variant(set_columns_kwargs(fn["ltrim"], "edges"),
                      ["left", "right", "parent", "child"], "edges")
    mig_md = variant(set_columns_kwargs(fn["ltrim"], "migrations"),
                     ["left", "right", "node", "source", "dest", "time"], "migrations")
    ops = [n for n in ast.walk(fn["_check_trim_conditions"]) if isinstance(n, ast.BoolOp)]
    if len(ops) != 1 or len(ops[0].values) != 2:
        die("C11: _check_trim_conditions: expected one two-way boolean test")
    want = ["np.min(self.migrations.left) < np.min(self.edges.left)",
            "np.max(self.migrations.right) > np.max(self.edges.right)"]
    got = [ast.unparse(v) for v in ops[0].values]
    if got != want:
        die("C11: _check_trim_conditions tests changed: %r" % got)
    if isinstance(ops[0].op, ast.And):
        uses_or = False
    elif isinstance(ops[0].op, ast.Or):
        uses_or = True
    else:
        die("C11: _check_trim_conditions: unknown boolean operator")
    b = lambda x: "true" if x else "false"      # noqa: E731
    return [
        "Definition C11_ltrim_passes_edge_metadata : bool := %s." % b(edge_md),
        "Definition C11_ltrim_passes_migration_metadata : bool := %s." % b(mig_md),
        "Definition C11_trim_check_uses_or : bool := %s." % b(uses_or),
    ]
