"""C17 facts, re-extracted from /repo on every run (Python ast, fail-closed):

  * text_formats.dump_text: per table, the header tuple printed first and the row
    format string (field name | format spec per TAB-separated piece; a trailing empty
    piece = the row ends with a TAB);
  * trees.parse_<table>: the column names looked up with header.index(...) —
    required (plain statement) vs optional (inside try/except ValueError) — and the
    minimum number of tokens a row must have to be used (`if len(tokens) >= k`).

Emitted into Gen/Generated.v with the prefix c17_.  The C17 model uses these
definitions and C17/TextProofs.v proves (by reflexivity) that they are the lists the
model's row functions were written for, so a change of a header, a column name or a
threshold in /repo breaks the proof cone instead of drifting silently.
"""
import ast
import re

TABLES = ("nodes", "edges", "sites", "mutations", "individuals", "populations", "migrations")


def cstr(s):
    if '"' in s or "\\" in s or any(ord(c) < 32 or ord(c) > 126 for c in s):
        raise ValueError("unexpected character in %r" % s)
    return '"%s"%%string' % s


def clist(xs):
    return "[" + "; ".join(cstr(x) for x in xs) + "]"


def _const_str(node):
    """A string constant, possibly written as adjacent literals / parenthesised."""
    if isinstance(node, ast.Constant) and isinstance(node.value, str):
        return node.value
    return None


def dump_facts(src, die):
    tree = ast.parse(src)
    fn = [n for n in tree.body if isinstance(n, ast.FunctionDef) and n.name == "dump_text"]
    if len(fn) != 1:
        die("facts_c17: text_formats.dump_text not found")
    out = {}
    for st in fn[0].body:
        if not (isinstance(st, ast.If) and isinstance(st.test, ast.Compare)
                and isinstance(st.test.left, ast.Name) and len(st.test.ops) == 1
                and isinstance(st.test.ops[0], ast.IsNot)):
            die("facts_c17: unexpected statement in dump_text at line %d" % st.lineno)
        tab = st.test.left.id
        if tab not in TABLES + ("provenances",):
            die("facts_c17: unknown table %r in dump_text" % tab)
        first = st.body[0]
        if not (isinstance(first, ast.Expr) and isinstance(first.value, ast.Call)
                and getattr(first.value.func, "id", None) == "print"):
            die("facts_c17: %s block does not start with print(header)" % tab)
        call = first.value
        kws = {k.arg: k.value for k in call.keywords}
        if _const_str(kws.get("sep")) != "\t" or getattr(kws.get("file"), "id", None) != tab:
            die("facts_c17: %s header print is not sep='\\t', file=%s" % (tab, tab))
        header = [_const_str(a) for a in call.args]
        if None in header:
            die("facts_c17: non-constant header cell for %s" % tab)
        # the row format: the unique `row = (<str>).format(...)` below
        fmts = []
        for node in ast.walk(st):
            if isinstance(node, ast.Assign) and len(node.targets) == 1 and getattr(node.targets[0], "id", None) == "row":
                v = node.value
                if isinstance(v, ast.Call) and isinstance(v.func, ast.Attribute) and v.func.attr == "format":
                    s = _const_str(v.func.value)
                    if s is None:
                        die("facts_c17: %s row format is not a string constant" % tab)
                    fmts.append((s, sorted(k.arg for k in v.keywords)))
        if len(fmts) != 1:
            die("facts_c17: expected exactly one row format for %s" % tab)
        pieces = fmts[0][0].split("\t")
        fields = []
        for k, p in enumerate(pieces):
            if p == "" and k == len(pieces) - 1:
                fields.append("")
                continue
            m = re.fullmatch(r"\{(\w+)(?::(.*))?\}", p)
            if not m:
                die("facts_c17: unrecognised piece %r in the %s row format" % (p, tab))
            fields.append(m.group(1) + "|" + (m.group(2) or ""))
        out[tab] = (header, fields)
    if sorted(out) != sorted(TABLES + ("provenances",)):
        die("facts_c17: dump_text tables %r" % sorted(out))
    return out


def _index_call(node):
    """header.index("name") -> name"""
    if (isinstance(node, ast.Call) and isinstance(node.func, ast.Attribute) and node.func.attr == "index"
            and getattr(node.func.value, "id", None) == "header" and len(node.args) == 1):
        return _const_str(node.args[0])
    return None


def parse_facts(src, die):
    tree = ast.parse(src)
    out = {}
    for tab in TABLES:
        fn = [n for n in tree.body if isinstance(n, ast.FunctionDef) and n.name == "parse_" + tab]
        if len(fn) != 1:
            die("facts_c17: trees.parse_%s not found" % tab)
        required, optional, mins = [], [], []
        seen_calls = 0
        for st in fn[0].body:
            if isinstance(st, ast.Assign):
                name = _index_call(st.value)
                if name is not None:
                    required.append(name)
                    seen_calls += 1
            elif isinstance(st, ast.Try):
                ok = (len(st.handlers) == 1 and getattr(st.handlers[0].type, "id", None) == "ValueError"
                      and len(st.body) == 1 and isinstance(st.body[0], ast.Assign))
                name = _index_call(st.body[0].value) if ok else None
                if name is None:
                    die("facts_c17: unrecognised try block in parse_%s line %d" % (tab, st.lineno))
                optional.append(name)
                seen_calls += 1
            elif isinstance(st, ast.For):
                for node in ast.walk(st):
                    if isinstance(node, ast.If) and isinstance(node.test, ast.Compare):
                        t = node.test
                        if (isinstance(t.left, ast.Call) and getattr(t.left.func, "id", None) == "len"
                                and getattr(t.left.args[0], "id", None) == "tokens"
                                and len(t.ops) == 1 and isinstance(t.ops[0], ast.GtE)
                                and isinstance(t.comparators[0], ast.Constant)):
                            mins.append(int(t.comparators[0].value))
        total = sum(1 for node in ast.walk(fn[0]) if _index_call(node) is not None)
        if total != seen_calls:
            die("facts_c17: parse_%s has header.index calls in unexpected places" % tab)
        if len(mins) != 1:
            die("facts_c17: parse_%s: expected exactly one len(tokens) >= k test" % tab)
        out[tab] = (required, optional, mins[0])
    return out


def wrapper_facts(read, die):
    """TreeSequence.dump_text forwards every parameter to text_formats.dump_text under the same
    name; load_text forwards strict / encoding / base64_metadata to every parse_* it calls and
    lets each write into the matching table of the collection."""
    tree = ast.parse(read("python/tskit/trees.py"))
    cls = [n for n in tree.body if isinstance(n, ast.ClassDef) and n.name == "TreeSequence"]
    if len(cls) != 1:
        die("facts_c17: class TreeSequence not found")
    dt = [n for n in cls[0].body if isinstance(n, ast.FunctionDef) and n.name == "dump_text"]
    if len(dt) != 1 or dt[0].args.vararg or dt[0].args.kwarg:
        die("facts_c17: TreeSequence.dump_text not found / unexpected signature")
    params = [a.arg for a in dt[0].args.args[1:]] + [a.arg for a in dt[0].args.kwonlyargs]
    calls = [n for n in ast.walk(dt[0]) if isinstance(n, ast.Call) and isinstance(n.func, ast.Attribute)
             and n.func.attr == "dump_text" and getattr(n.func.value, "id", None) == "text_formats"]
    if len(calls) != 1 or [getattr(a, "id", None) for a in calls[0].args] != ["self"]:
        die("facts_c17: expected one text_formats.dump_text(self, ...) call")
    forwarded = []
    for k in calls[0].keywords:
        if k.arg is None or not isinstance(k.value, ast.Name):
            die("facts_c17: dump_text keyword %r is not a plain name" % k.arg)
        forwarded.append(k.arg + "=" + k.value.id)
    if any(isinstance(n, (ast.Assign, ast.AugAssign)) for n in ast.walk(dt[0])):
        die("facts_c17: TreeSequence.dump_text assigns to something before forwarding")
    tf = ast.parse(read("python/tskit/text_formats.py"))
    inner = [n for n in tf.body if isinstance(n, ast.FunctionDef) and n.name == "dump_text"]
    inner_params = [a.arg for a in inner[0].args.args[1:]] + [a.arg for a in inner[0].args.kwonlyargs]
    lt = [n for n in tree.body if isinstance(n, ast.FunctionDef) and n.name == "load_text"][0]
    pcalls = []
    for n in ast.walk(lt):
        if isinstance(n, ast.Call) and isinstance(n.func, ast.Name) and n.func.id.startswith("parse_"):
            tab = n.func.id[len("parse_"):]
            if len(n.args) != 1 or getattr(n.args[0], "id", None) != tab:
                die("facts_c17: %s is not called on the %s file" % (n.func.id, tab))
            kws = []
            for k in n.keywords:
                v = k.value
                if isinstance(v, ast.Name):
                    kws.append(k.arg + "=" + v.id)
                elif isinstance(v, ast.Attribute) and isinstance(v.value, ast.Name):
                    kws.append(k.arg + "=" + v.value.id + "." + v.attr)
                else:
                    die("facts_c17: unrecognised keyword value in %s" % n.func.id)
            pcalls.append(tab + ":" + ",".join(kws))
    return params, forwarded, inner_params, sorted(pcalls)


def cstrs(xs):
    for x in xs:
        if not all(c.isalnum() or c in "_=.:," for c in x):
            raise ValueError(x)
    return "[" + "; ".join('"%s"%%string' % x for x in xs) + "]"


def facts(read, die, define):
    d = dump_facts(read("python/tskit/text_formats.py"), die)
    p = parse_facts(read("python/tskit/trees.py"), die)
    lines = []
    for tab in TABLES:
        header, fields = d[tab]
        req, opt, k = p[tab]
        lines.append("Definition c17_dump_header_%s : list string := %s." % (tab, clist(header)))
        lines.append("Definition c17_dump_rowfmt_%s : list string := %s." % (tab, clist(fields)))
        lines.append("Definition c17_parse_required_%s : list string := %s." % (tab, clist(req)))
        lines.append("Definition c17_parse_optional_%s : list string := %s." % (tab, clist(opt)))
        lines.append("Definition c17_parse_min_tokens_%s : nat := %d%%nat." % (tab, k))
    header, fields = d["provenances"]
    lines.append("Definition c17_dump_header_provenances : list string := %s." % clist(header))
    lines.append("Definition c17_dump_rowfmt_provenances : list string := %s." % clist(fields))
    # there is no text reader for provenances (and load_text has no such parameter)
    tree = ast.parse(read("python/tskit/trees.py"))
    has_reader = any(isinstance(n, ast.FunctionDef) and n.name == "parse_provenances" for n in tree.body)
    lt = [n for n in tree.body if isinstance(n, ast.FunctionDef) and n.name == "load_text"]
    if len(lt) != 1:
        die("facts_c17: trees.load_text not found")
    params = [a.arg for a in lt[0].args.args]
    lines.append("Definition c17_provenances_have_reader : bool := %s."
                 % ("true" if (has_reader or "provenances" in params) else "false"))
    lines.append("Definition c17_load_text_params : list string := %s." % clist(params))
    wp, wf, wi, pc = wrapper_facts(read, die)
    lines.append("Definition c17_dump_text_params : list string := %s." % cstrs(wp))
    lines.append("Definition c17_dump_text_keywords : list string := %s." % cstrs(wf))
    lines.append("Definition c17_text_formats_dump_text_params : list string := %s." % cstrs(wi))
    lines.append("Definition c17_load_text_parse_calls : list string := %s." % cstrs(pc))
    return lines
