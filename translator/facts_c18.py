"""C18 facts re-extracted from /repo on every run (fail closed): error codes and flags used by
tsk_newick_converter_run, the printf label formats, and the integer constants of the buffer
estimate in Tree._as_newick_fast."""
import re


def facts(read, die, define):
    out = []
    core = read("c/tskit/core.h")
    conv_h = read("c/tskit/convert.h")
    conv = read("c/tskit/convert.c")
    trees = read("python/tskit/trees.py")
    out.append("Definition c18_err_buffer_overflow : Z := %d." % define(core, "TSK_ERR_BUFFER_OVERFLOW", "core.h"))
    out.append("Definition c18_err_node_out_of_bounds : Z := %d." % define(core, "TSK_ERR_NODE_OUT_OF_BOUNDS", "core.h"))
    out.append("Definition c18_err_bad_param_value : Z := %d." % define(core, "TSK_ERR_BAD_PARAM_VALUE", "core.h"))
    out.append("Definition c18_node_is_sample : Z := %d." % define(core, "TSK_NODE_IS_SAMPLE", "core.h"))
    m = re.search(r"^#define\s+TSK_NEWICK_LEGACY_MS_LABELS\s+\(1 << (\d+)\)\s*$", conv_h, re.M)
    if not m:
        die("TSK_NEWICK_LEGACY_MS_LABELS")
    out.append("Definition c18_newick_legacy_ms_labels : Z := %d." % (1 << int(m.group(1))))
    m = re.search(r'label_format\s*=\s*ms_labels\s*\?\s*"([^"]*)"\s*:\s*"([^"]*)"\s*;', conv)
    if not m or m.group(1) != "%d" or not m.group(2).endswith("%d") or "%" in m.group(2)[:-2]:
        die("label_format in tsk_newick_converter_run")
    out.append("Definition c18_ms_label_prefix : list Z := [].")
    out.append("Definition c18_label_prefix : list Z := [%s]." % "; ".join(str(ord(c)) for c in m.group(2)[:-2]))
    if not re.search(r'snprintf\(buffer \+ s, buffer_size - s, ":%\.\*f", \(int\) self->precision,\s*branch_length\)', conv):
        die("branch length format in tsk_newick_converter_run")
    # the estimate:  single_node_size = ( K + max_label_size + ceil(log10(root_time)) + precision )
    #                buffer_size = E + single_node_size * num_nodes
    m = re.search(r"def _as_newick_fast\(self.*?\n(.*?)\n    def ", trees, re.S)
    if not m:
        die("_as_newick_fast body")
    body = m.group(1)
    m1 = re.search(r"root_time = max\((\d+), self\.time\(root\)\)", body)
    m2 = re.search(r"max_label_size = math\.ceil\(math\.log10\(self\.tree_sequence\.num_nodes\)\)", body)
    m3 = re.search(r"single_node_size = \(\s*(\d+) \+ max_label_size \+ math\.ceil\(math\.log10\(root_time\)\) \+ precision\s*\)", body)
    m4 = re.search(r"buffer_size = (\d+) \+ single_node_size \* self\.tree_sequence\.num_nodes", body)
    if not (m1 and m2 and m3 and m4):
        # the formula changed shape (e.g. a repair): the model's [estimate] no longer mirrors it;
        # export a marker so that the correspondence (which compares the observed buffer size
        # with the model's formula only when this is true) does not claim a tie it cannot make.
        out.append("Definition c18_estimate_shape_known : bool := false.")
        out.append("Definition c18_estimate_root_time_floor : Z := 1.")
        out.append("Definition c18_estimate_per_node : Z := 5.")
        out.append("Definition c18_estimate_extra : Z := 1.")
    else:
        out.append("Definition c18_estimate_shape_known : bool := true.")
        out.append("Definition c18_estimate_root_time_floor : Z := %s." % m1.group(1))
        out.append("Definition c18_estimate_per_node : Z := %s." % m3.group(1))
        out.append("Definition c18_estimate_extra : Z := %s." % m4.group(1))
    return out
