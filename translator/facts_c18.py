"""C18 facts re-extracted from /repo on every run (fail closed): error codes and flags used by
tsk_newick_converter_run, the printf label formats, and the integer constants of the buffer
estimate in Tree._as_newick_fast."""
import re


def facts(read, die, define):
    out = []
    core = read("c/tskit/core.h")
    conv_h = read("c/tskit/convert.h")
    conv = read("c/tskit/convert.c")
    trees = read("python/tskit/trees.py")
    out.append("Definition c18_err_buffer_overflow : Z := %d." % define(core, "TSK_ERR_BUFFER_OVERFLOW", "core.h"))
    out.append("Definition c18_err_node_out_of_bounds : Z := %d." % define(core, "TSK_ERR_NODE_OUT_OF_BOUNDS", "core.h"))
    out.append("Definition c18_err_bad_param_value : Z := %d." % define(core, "TSK_ERR_BAD_PARAM_VALUE", "core.h"))
    out.append("Definition c18_node_is_sample : Z := %d." % define(core, "TSK_NODE_IS_SAMPLE", "core.h"))
    m = re.search(r"^#define\s+TSK_NEWICK_LEGACY_MS_LABELS\s+\(1 << (\d+)\)\s*$", conv_h, re.M)
    if not m:
        die("TSK_NEWICK_LEGACY_MS_LABELS")
    out.append("Definition c18_newick_legacy_ms_labels : Z := %d." % (1 << int(m.group(1))))
    m = re.search(r'label_format\s*=\s*ms_labels\s*\?\s*"([^"]*)"\s*:\s*"([^"]*)"\s*;', conv)
    if not m or m.group(1) != "%d" or not m.group(2).endswith("%d") or "%" in m.group(2)[:-2]:
        die("label_format in tsk_newick_converter_run")
    out.append("Definition c18_ms_label_prefix : list Z := [].")
    out.append("Definition c18_label_prefix : list Z := [%s]." % "; ".join(str(ord(c)) for c in m.group(2)[:-2]))
    if not re.search(r'snprintf\(buffer \+ s, buffer_size - s, ":%\.\*f", \(int\) self->precision,\s*branch_length\)', conv):
        die("branch length format in tsk_newick_converter_run")
    # the estimate (repaired by fix 1e12f75):
    #   max_branch = self.time(root) - self.tree_sequence.nodes_time.min()
    #   max_label_size = len(str(self.tree_sequence.num_nodes))
    #   single_node_size = K + max_label_size + len(f"{max_branch:.{precision}f}")
    #   buffer_size = E + single_node_size * num_nodes
    m = re.search(r"def _as_newick_fast\(self.*?\n(.*?)\n    def ", trees, re.S)
    if not m:
        die("_as_newick_fast body")
    body = m.group(1)
    m1 = re.search(r"max_branch = self\.time\(root\) - self\.tree_sequence\.nodes_time\.min\(\)", body)
    m2 = re.search(r"max_label_size = len\(str\(self\.tree_sequence\.num_nodes\)\)", body)
    m3 = re.search(r"single_node_size = (\d+) \+ max_label_size \+ len\(f\"\{max_branch:\.\{precision\}f\}\"\)", body)
    m4 = re.search(r"buffer_size = (\d+) \+ single_node_size \* self\.tree_sequence\.num_nodes", body)
    if not (m1 and m2 and m3 and m4):
        die("Tree._as_newick_fast: the buffer-size formula is not the one the model mirrors "
            "(C18.Model.estimate)")
    out.append("Definition c18_estimate_per_node : Z := %s." % m3.group(1))
    out.append("Definition c18_estimate_extra : Z := %s." % m4.group(1))
    # the general writer is the iterative build_newick over a post-order; the legacy ms label
    # dictionary is built from the leaves below the requested root
    tf = read("python/tskit/text_formats.py")
    if not re.search(r'for node in tree\.nodes\(root, order="postorder"\):', tf) or "def _build_newick(" in tf \
            or not re.search(r"subtree = subtrees\.pop\(child\)", tf):
        die("text_formats.build_newick is not the iterative post-order writer the model mirrors")
    if not re.search(r'node_labels = \{u: f"\{u \+ 1\}" for u in self\.leaves\(root\)\}', trees):
        die("Tree.as_newick: legacy ms label dictionary is not built from self.leaves(root)")
    return out
