"""C20 facts re-extracted from /repo on every run (fail closed): the constants the
map_mutations model depends on."""
import re


def facts(read, die, define):
    out = []
    tc = read("c/tskit/trees.c")
    ch = read("c/tskit/core.h")
    out.append("Definition c20_hartigan_max_alleles : Z := %d." % define(tc, "HARTIGAN_MAX_ALLELES", "trees.c"))
    out.append("Definition c20_tsk_missing_data : Z := %d." % define(ch, "TSK_MISSING_DATA", "core.h"))
    out.append("Definition c20_tsk_node_is_sample : Z := %d." % define(ch, "TSK_NODE_IS_SAMPLE", "core.h"))
    py = read("python/tskit/trees.py")
    m = re.search(r"def map_mutations\(self, genotypes, alleles, ancestral_state=None\):.*?"
                  r"if max_alleles >= (\d+):\s*\n\s*raise ValueError", py, re.S)
    if not m:
        die("C20: cannot find the `max_alleles >= N` guard of Tree.map_mutations")
    out.append("Definition c20_py_max_alleles : Z := %d." % int(m.group(1)))
    m = re.search(r"genotypes = util\.safe_np_int_cast\(genotypes, np\.int(\d+)\)\s*\n\s*max_alleles = np\.max\(genotypes\)", py)
    if not m:
        die("C20: cannot find the genotype cast of Tree.map_mutations")
    out.append("Definition c20_py_genotype_bits : Z := %d." % int(m.group(1)))
    return out
