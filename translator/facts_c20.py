"""C20 facts re-extracted from /repo on every run (fail closed): the constants the
map_mutations model depends on."""
import re


def facts(read, die, define):
    out = []
    tc = read("c/tskit/trees.c")
    ch = read("c/tskit/core.h")
    out.append("Definition c20_hartigan_max_alleles : Z := %d." % define(tc, "HARTIGAN_MAX_ALLELES", "trees.c"))
    out.append("Definition c20_tsk_missing_data : Z := %d." % define(ch, "TSK_MISSING_DATA", "core.h"))
    out.append("Definition c20_tsk_node_is_sample : Z := %d." % define(ch, "TSK_NODE_IS_SAMPLE", "core.h"))
    py = read("python/tskit/trees.py")
    m = re.search(r"def map_mutations\(self, genotypes, alleles, ancestral_state=None\):.*?"
                  r"if max_alleles >= (\d+):\s*\n\s*raise ValueError", py, re.S)
    if not m:
        die("C20: cannot find the `max_alleles >= N` guard of Tree.map_mutations")
    out.append("Definition c20_py_max_alleles : Z := %d." % int(m.group(1)))
    m = re.search(r"genotypes = util\.safe_np_int_cast\(genotypes, np\.int(\d+)\)\s*\n\s*max_alleles = np\.max\(genotypes\)", py)
    if not m:
        die("C20: cannot find the genotype cast of Tree.map_mutations")
    out.append("Definition c20_py_genotype_bits : Z := %d." % int(m.group(1)))
    # Which of the two recognised shapes does the handling of missing samples have?
    #   current:  missing sample -> optimal_set[u] = UINT64_MAX, Hartigan step only for
    #             non-sample nodes (finding F2)
    #   repaired: missing sample -> optimal_set[u] left 0, Hartigan step also for
    #             optimal_set[u] == 0
    # Anything else fails closed: the model must be re-read against the code.
    m = re.search(r"tsk_tree_map_mutations\(.*?^}", tc, re.S | re.M)
    if not m:
        die("C20: cannot find tsk_tree_map_mutations")
    body = re.sub(r"/\*.*?\*/", "", m.group(0), flags=re.S)
    body = re.sub(r"\s+", " ", body)
    miss = re.search(r"if \(genotypes\[j\] == TSK_MISSING_DATA\) \{(.*?)\} else \{", body)
    cond = re.search(r"if \((u == \(tsk_id_t\) N \|\| !\(node_flags\[u\] & TSK_NODE_IS_SAMPLE\)[^{]*)\) \{ max_allele_count = 0;", body)
    if not miss or not cond:
        die("C20: cannot find the missing-data branch / the Hartigan-step condition of tsk_tree_map_mutations")
    mb, cb = miss.group(1).strip(), cond.group(1).strip()
    if mb == "optimal_set[u] = UINT64_MAX;" and cb == "u == (tsk_id_t) N || !(node_flags[u] & TSK_NODE_IS_SAMPLE)":
        flag = "false"
    elif mb == "" and cb == "u == (tsk_id_t) N || !(node_flags[u] & TSK_NODE_IS_SAMPLE) || optimal_set[u] == 0":
        flag = "true"
    else:
        die("C20: unrecognised handling of missing samples in tsk_tree_map_mutations: %r / %r" % (mb, cb))
    out.append("Definition c20_missing_through_hartigan : bool := %s." % flag)
    # F14 (proposed repair, fixes/C20-F14-reject-samples-below-no-root.diff): does the function
    # reject trees in which some sample is not visited by the postorder traversal
    # (root_threshold > 1)?  Two recognised shapes, anything else fails closed.
    has_counter = "num_visited_samples" in body
    guard = ("if (u != (tsk_id_t) N && (node_flags[u] & TSK_NODE_IS_SAMPLE)) { num_visited_samples++; }" in body
             and "if (num_visited_samples != num_samples) { ret = tsk_trace_error(TSK_ERR_UNSUPPORTED_OPERATION); goto out; }" in body)
    if not has_counter and "TSK_ERR_UNSUPPORTED_OPERATION" not in body:
        rej = "false"
    elif guard:
        rej = "true"
    else:
        die("C20: unrecognised handling of unvisited samples in tsk_tree_map_mutations")
    out.append("Definition c20_rejects_unvisited_samples : bool := %s." % rej)
    return out
