"""Facts for C05/C10 extracted from /repo (fail closed): the column schema of every table as
written by tsk_<T>_table_dump and as read by tsk_<T>_table_load (tables.c initialisers of
write_table_col_t / write_table_ragged_col_t / read_table_col_t / read_table_ragged_col_t /
read_table_property_t), the order of the per-table dump/load calls, the top-level format
columns, index and reference-sequence columns, and a few constants.

`schema(read, die)` returns the same data as Python objects (used by harness/props/c05.py so
that the harness and Gen/Generated.v cannot drift apart)."""
import re

TABLES = ["node", "edge", "site", "mutation", "migration", "individual", "population", "provenance"]
KAS_TYPES = {"KAS_INT8": 0, "KAS_UINT8": 1, "KAS_INT16": 2, "KAS_UINT16": 3, "KAS_INT32": 4, "KAS_UINT32": 5,
             "KAS_INT64": 6, "KAS_UINT64": 7, "KAS_FLOAT32": 8, "KAS_FLOAT64": 9}


def _body(src, header_re, die):
    m = re.search(header_re, src)
    if not m:
        die("facts_c05: cannot find %s" % header_re)
    i = src.index("{", m.end() - 1)
    depth, j = 0, i
    while True:
        c = src[j]
        if c == "{":
            depth += 1
        elif c == "}":
            depth -= 1
            if depth == 0:
                return src[i:j + 1]
        j += 1


def _init_list(body, ctype, die, required=True):
    """entries of `<ctype> name[] = { {...}, {...}, { .name = NULL }, };` as lists of raw fields"""
    m = re.search(r"(?:const\s+)?%s\s+\w+\[\]\s*=\s*\{" % ctype, body)
    if not m:
        if required:
            die("facts_c05: no %s initialiser" % ctype)
        return None
    i = m.end() - 1
    depth, j = 0, i
    while True:
        c = body[j]
        if c == "{":
            depth += 1
        elif c == "}":
            depth -= 1
            if depth == 0:
                break
        j += 1
    inner = body[i + 1:j]
    entries, depth, cur = [], 0, ""
    for c in inner:
        if c == "{":
            depth += 1
            if depth == 1:
                cur = ""
                continue
        if c == "}":
            depth -= 1
            if depth == 0:
                entries.append(cur)
                continue
        if depth >= 1:
            cur += c
    out = []
    for e in entries:
        e = " ".join(e.split())
        if e == ".name = NULL":
            continue
        # split on top-level commas
        fields, d, cur = [], 0, ""
        for c in e:
            if c in "({":
                d += 1
            if c in ")}":
                d -= 1
            if c == "," and d == 0:
                fields.append(cur.strip())
                cur = ""
            else:
                cur += c
        if cur.strip():
            fields.append(cur.strip())
        out.append(fields)
    if not entries or " ".join(entries[-1].split()) != ".name = NULL":
        die("facts_c05: %s initialiser is not NULL-terminated" % ctype)
    return out


def _key(f, die):
    m = re.fullmatch(r'"([A-Za-z_/]+)"', f)
    if not m:
        die("facts_c05: unrecognised key field %r" % f)
    return m.group(1)


def schema(read, die):
    ch = read("c/tskit/core.h")
    types = dict(KAS_TYPES)
    # two definitions: the first under _TSK_BIG_TABLES (never defined by the Python build), the
    # second in its #else branch
    ds = list(re.finditer(r"#define\s+TSK_ID_STORAGE_TYPE\s+(KAS_\w+)", ch))
    if len(ds) != 2 or ds[1].group(1) not in KAS_TYPES or "#else" not in ch[ds[0].end():ds[1].start()] \
            or "_TSK_BIG_TABLES" not in ch[:ds[0].start()]:
        die("facts_c05: TSK_ID_STORAGE_TYPE")
    types["TSK_ID_STORAGE_TYPE"] = KAS_TYPES[ds[1].group(1)]
    m = re.search(r"#define\s+TSK_FLAGS_STORAGE_TYPE\s+(KAS_\w+)", ch)
    if not m or m.group(1) not in KAS_TYPES:
        die("facts_c05: TSK_FLAGS_STORAGE_TYPE")
    types["TSK_FLAGS_STORAGE_TYPE"] = KAS_TYPES[m.group(1)]

    def ty(f):
        if f not in types:
            die("facts_c05: unknown storage type %r" % f)
        return types[f]

    def opt(f):
        if f == "0":
            return False
        if f == "TSK_COL_OPTIONAL":
            return True
        die("facts_c05: unknown column option %r" % f)

    tc = read("c/tskit/tables.c")
    out = {"tables": {}}
    for t in TABLES:
        load = _body(tc, r"\ntsk_%s_table_load\(tsk_%s_table_t \*self, kastore_t \*store\)\s*\{" % (t, t), die)
        dump = _body(tc, r"\ntsk_%s_table_dump\(\s*const tsk_%s_table_t \*self, kastore_t \*store, tsk_flags_t options\)\s*\{" % (t, t), die)
        rc = _init_list(load, "read_table_col_t", die, required=False) or []
        rr = _init_list(load, "read_table_ragged_col_t", die)
        rp = _init_list(load, "read_table_property_t", die, required=False) or []
        wc = _init_list(dump, "write_table_col_t", die, required=False) or []
        wr = _init_list(dump, "write_table_ragged_col_t", die)
        if not re.search(r"read_table\(store, &num_rows, (cols|NULL), ragged_cols, (properties|NULL), 0\)", load):
            die("facts_c05: %s load does not use read_table in the recognised form" % t)
        whole = bool(re.search(r"return write_table\(store, (\w+|NULL), ragged_cols, options\);", dump)) or \
            (not wc and bool(re.search(r"return write_table_ragged_cols\(store, ragged_cols, options\);", dump)))
        guarded = bool(re.search(r"ret = write_table_cols\(store, write_cols, options\);.*?if \(tsk_%s_table_has_metadata\(self\)\) \{\s*"
                                 r"ret = write_table_ragged_cols\(store, ragged_cols, options\);" % t, dump, re.S))
        if not (whole or guarded):
            die("facts_c05: %s dump has an unrecognised shape" % t)
        tab = {"read_cols": [], "read_ragged": [], "read_props": [], "write_cols": [], "write_ragged": [],
               "ragged_guarded": guarded}
        for f in rc:
            if len(f) != 4:
                die("facts_c05: read col %r" % f)
            tab["read_cols"].append((_key(f[0], die), ty(f[2]), opt(f[3])))
        for f in rr:
            if len(f) != 6:
                die("facts_c05: read ragged col %r" % f)
            tab["read_ragged"].append((_key(f[0], die), ty(f[3]), opt(f[5])))
        for f in rp:
            if len(f) != 5 or not opt(f[4]):
                die("facts_c05: read property %r" % f)
            tab["read_props"].append((_key(f[0], die), ty(f[3])))
        for f in wc:
            if len(f) != 4:
                die("facts_c05: write col %r" % f)
            per_row = f[2] == "self->num_rows"
            if not per_row and not re.fullmatch(r"self->\w+_length", f[2]):
                die("facts_c05: write col length %r" % f)
            tab["write_cols"].append((_key(f[0], die), ty(f[3]), per_row))
        for f in wr:
            if len(f) != 6 or f[5] != "self->num_rows":
                die("facts_c05: write ragged col %r" % f)
            tab["write_ragged"].append((_key(f[0], die), ty(f[3])))
        # every written key must be read with the same type, and vice versa
        wkeys = {k: ty_ for k, ty_, _ in tab["write_cols"]}
        wkeys.update({k: ty_ for k, ty_ in tab["write_ragged"]})
        rkeys = {k: ty_ for k, ty_, _ in tab["read_cols"]}
        rkeys.update({k: ty_ for k, ty_, _ in tab["read_ragged"]})
        rkeys.update({k: ty_ for k, ty_ in tab["read_props"]})
        if wkeys != rkeys:
            die("facts_c05: %s: written and read columns differ: %r vs %r" % (t, wkeys, rkeys))
        out["tables"][t] = tab
    loadf = _body(tc, r"\ntsk_table_collection_loadf_inited\(\s*tsk_table_collection_t \*self, FILE \*file, tsk_flags_t options\)\s*\{", die)
    out["load_order"] = re.findall(r"tsk_(\w+)_table_load\(&self->\w+, &store\)", loadf)
    dumpf = _body(tc, r"\ntsk_table_collection_dumpf\(\s*const tsk_table_collection_t \*self, FILE \*file, tsk_flags_t options\)\s*\{", die)
    out["dump_order"] = re.findall(r"tsk_(\w+)_table_dump\(&self->\w+, &store, options\)", dumpf)
    if sorted(out["load_order"]) != sorted(TABLES) or sorted(out["dump_order"]) != sorted(TABLES):
        die("facts_c05: table dump/load order: %r %r" % (out["load_order"], out["dump_order"]))
    fmt = _init_list(dumpf, "write_table_col_t", die)
    out["format_cols"] = [(_key(f[0], die), ty(f[-1])) for f in fmt]
    ixd = _body(tc, r"\ntsk_table_collection_dump_indexes\(const tsk_table_collection_t \*self, kastore_t \*store,\s*tsk_flags_t TSK_UNUSED\(options\)\)\s*\{", die)
    out["index_cols"] = [(_key(f[0], die), ty(f[3])) for f in _init_list(ixd, "write_table_col_t", die)]
    ixl = _body(tc, r"\ntsk_table_collection_load_indexes\(tsk_table_collection_t \*self, kastore_t \*store\)\s*\{", die)
    if [(k, t_) for k, t_ in out["index_cols"]] != [(_key(f[0], die), ty(f[2])) for f in _init_list(ixl, "read_table_col_t", die)]:
        die("facts_c05: index columns written and read differ")
    rsd = _body(tc, r"\ntsk_table_collection_dump_reference_sequence\(const tsk_table_collection_t \*self,\s*kastore_t \*store, tsk_flags_t TSK_UNUSED\(options\)\)\s*\{", die)
    out["refseq_cols"] = [(_key(f[0], die), ty(f[3])) for f in _init_list(rsd, "write_table_col_t", die)]
    rsl = _body(tc, r"\ntsk_table_collection_load_reference_sequence\(\s*tsk_table_collection_t \*self, kastore_t \*store\)\s*\{", die)
    if out["refseq_cols"] != [(_key(f[0], die), ty(f[3])) for f in _init_list(rsl, "read_table_property_t", die)]:
        die("facts_c05: reference sequence columns written and read differ")
    m = re.search(r'#define\s+TSK_FILE_FORMAT_NAME\s+"([^"]+)"', ch)
    m2 = re.search(r"#define\s+TSK_FILE_FORMAT_NAME_LENGTH\s+(\d+)", ch)
    m3 = re.search(r"#define\s+TSK_UUID_SIZE\s+(\d+)", ch)
    m4 = re.search(r'#define\s+TSK_TIME_UNITS_UNKNOWN\s+"([^"]*)"', ch)
    m5 = re.search(r"#define\s+TSK_UNKNOWN_TIME_HEX\s+0x([0-9A-Fa-f]{16})ULL", ch)
    if not (m and m2 and m3 and m4 and m5) or len(m.group(1)) != int(m2.group(1)):
        die("facts_c05: format name / uuid size / time units / unknown time")
    out["format_name"] = m.group(1)
    out["uuid_size"] = int(m3.group(1))
    out["time_units_unknown"] = m4.group(1)
    out["unknown_time_bits"] = int(m5.group(1), 16)
    return out


def _s(text):
    return "[" + "; ".join(str(b) for b in text.encode("ascii")) + "]"


def facts(read, die, define):
    sc = schema(read, die)
    L = ["(* table column schema: keys are ASCII byte lists; see the comment before each line *)"]
    L.append("Definition tsk_format_name : list Z := %s. (* %s *)" % (_s(sc["format_name"]), sc["format_name"]))
    L.append("Definition tsk_uuid_size : Z := %d." % sc["uuid_size"])
    L.append("Definition tsk_time_units_unknown : list Z := %s. (* %s *)" % (_s(sc["time_units_unknown"]), sc["time_units_unknown"]))
    L.append("Definition tsk_unknown_time_bits : Z := %d." % sc["unknown_time_bits"])
    L.append("(* per table, in the order of the *_load calls of tsk_table_collection_loadf_inited:")
    L.append("   (fixed columns read: key, type, optional) (ragged columns read: key, data type, optional)")
    L.append("   (properties read: key, type) (fixed columns written: key, type, one-entry-per-row?) (ragged written: key, type) *)")
    rows = []
    for t in sc["load_order"]:
        tab = sc["tables"][t]
        rows.append("  (* %s *) (%s,\n    %s,\n    %s,\n    %s,\n    %s)" % (
            t,
            "[" + "; ".join("(%s, %d, %s)" % (_s(k), ty, "true" if o else "false") for k, ty, o in tab["read_cols"]) + "]",
            "[" + "; ".join("(%s, %d, %s)" % (_s(k), ty, "true" if o else "false") for k, ty, o in tab["read_ragged"]) + "]",
            "[" + "; ".join("(%s, %d)" % (_s(k), ty) for k, ty in tab["read_props"]) + "]",
            "[" + "; ".join("(%s, %d, %s)" % (_s(k), ty, "true" if p else "false") for k, ty, p in tab["write_cols"]) + "]",
            "[" + "; ".join("(%s, %d)" % (_s(k), ty) for k, ty in tab["write_ragged"]) + "]"))
    L.append("Definition tsk_table_schemas : list (list (list Z * Z * bool) * list (list Z * Z * bool) * list (list Z * Z) * list (list Z * Z * bool) * list (list Z * Z)) := [\n"
             + ";\n".join(rows) + "].")
    L.append("Definition tsk_table_names : list (list Z) := [%s]. (* %s *)" % ("; ".join(_s(t) for t in sc["load_order"]), " ".join(sc["load_order"])))
    L.append("Definition tsk_format_cols : list (list Z * Z) := [%s]. (* %s *)" % (
        "; ".join("(%s, %d)" % (_s(k), ty) for k, ty in sc["format_cols"]), " ".join(k for k, _ in sc["format_cols"])))
    L.append("Definition tsk_index_cols : list (list Z * Z) := [%s]." % "; ".join("(%s, %d)" % (_s(k), ty) for k, ty in sc["index_cols"]))
    L.append("Definition tsk_refseq_cols : list (list Z * Z) := [%s]." % "; ".join("(%s, %d)" % (_s(k), ty) for k, ty in sc["refseq_cols"]))
    return L
