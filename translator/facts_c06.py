"""C06 facts: the C constants that C06/Model.v hard-codes, re-extracted from /repo on every
run.  C06/Facts.v (in the cone of Props/C06.v) states that the model's literals equal
these, so a changed constant breaks the proof build instead of drifting silently."""


def facts(read, die, define):
    core = read("c/tskit/core.h")
    trees = read("c/tskit/trees.h")
    tables = read("c/tskit/tables.h")
    out = []
    out.append("Definition c06_tsk_err_seek_out_of_bounds : Z := %d."
               % define(core, "TSK_ERR_SEEK_OUT_OF_BOUNDS", "core.h"))
    out.append("Definition c06_tsk_dir_forward : Z := %d." % define(trees, "TSK_DIR_FORWARD", "trees.h"))
    out.append("Definition c06_tsk_dir_reverse : Z := %d." % define(trees, "TSK_DIR_REVERSE", "trees.h"))
    out.append("Definition c06_tsk_tree_ok : Z := %d." % define(tables, "TSK_TREE_OK", "tables.h"))
    return out
