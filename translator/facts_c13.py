"""C13 facts: the parameters of the generic table model (coq/theories/C13/Model.v) that are
read off the sources on every run, so that the descriptors d_<table> follow the code:
  * error codes and TSK_MAX_ID (c/tskit/core.h);
  * the order in which tsk_<t>_table_append_columns treats the ragged columns (order of its
    check_offsets calls, c/tskit/tables.c);
  * whether tsk_<t>_table_add_row asserts offset[num_rows] == length (tsk_bug_assert);
  * whether parse_<t>_table_dict (python/lwt_interface/tskit_lwt_interface.h) passes
    check_num_rows = true when it reads metadata_offset;
  * whether BaseTable.__getitem__ guards `ret.metadata_schema = self.metadata_schema`.
All names are prefixed c13_.  Fail closed: any shape that is not recognised aborts."""
import re

# table -> ragged column names in the order of harness/props/c13.py SCHEMAS / Model.v
RAGGED = {
    "individual": ["location", "parents", "metadata"],
    "node": ["metadata"],
    "edge": ["metadata"],
    "migration": ["metadata"],
    "site": ["ancestral_state", "metadata"],
    "mutation": ["derived_state", "metadata"],
    "population": ["metadata"],
    "provenance": ["record", "timestamp"],
}
ERRS = ["TSK_ERR_BAD_PARAM_VALUE", "TSK_ERR_BAD_OFFSET", "TSK_ERR_KEEP_ROWS_MAP_TO_DELETED",
        "TSK_ERR_BAD_TABLE_POSITION", "TSK_ERR_TABLE_OVERFLOW", "TSK_ERR_COLUMN_OVERFLOW"] + \
       ["TSK_ERR_%s_OUT_OF_BOUNDS" % t.upper() for t in RAGGED]


def body_of(src, name, die):
    m = re.search(r"^%s\([^)]*\)\s*\{" % re.escape(name), src, re.M | re.S)
    if not m:
        die("c13: cannot find function %s" % name)
    start = m.end()
    end = src.find("\n}\n", start)
    if end < 0:
        die("c13: cannot find the end of %s" % name)
    return src[start:end]


def accessor_table(read, die):
    """The accessor layer of python/_tskitmodule.c: for every entry of TreeSequence_getsetters /
    Tree_getsetters whose getter hands out a numpy array, how the array is made:
      view  = <Class>_make_array -> make_owned_array over the object's own memory;
      copy  = a freshly allocated numpy array filled by the getter.
    Returns (list of (python name, kind), view_is_readonly)."""
    src = read("python/_tskitmodule.c")
    b = body_of(src, "make_owned_array", die)
    readonly = bool(re.search(r"PyArray_CLEARFLAGS\(\s*array,\s*NPY_ARRAY_WRITEABLE\s*\)", b))
    for w in ("TreeSequence_make_array", "Tree_make_array"):
        if "make_owned_array(" not in body_of(src, w, die):
            die("c13: %s does not use make_owned_array" % w)
    rows = []
    for cls in ("TreeSequence", "Tree"):
        m = re.search(r"static PyGetSetDef %s_getsetters\[\]\s*=\s*\{(.*?)\{\s*NULL\s*\}\s*\};" % cls, src, re.S)
        if not m:
            die("c13: cannot find %s_getsetters" % cls)
        for name, getter in re.findall(r'\.name\s*=\s*"(\w+)",\s*\.get\s*=\s*\(getter\)\s*(\w+)', m.group(1)):
            g = body_of(src, getter, die)
            if "%s_make_array(" % cls in g:
                rows.append(("%s.%s" % (cls, name), "view"))
            elif re.search(r"PyArray_(SimpleNew|EMPTY|ZEROS)\(", g):
                rows.append(("%s.%s" % (cls, name), "copy"))
            elif "PyArray_" in g:
                die("c13: getter %s makes an array in an unrecognised way" % getter)
    if not rows:
        die("c13: no array accessors found")
    return rows, readonly


def cached_arrays(read, die):
    """python/tskit/trees.py: the arrays cached on the TreeSequence object and whether each is
    made read-only where it is filled."""
    py = read("python/tskit/trees.py")
    out = []
    for nme in re.findall(r"^        self\.(_individuals_\w+) = None$", py, re.M):
        m = re.search(r"if self\.%s is None:(.*?)return self\.%s" % (nme, nme), py, re.S)
        if not m:
            die("c13: cannot find the cache fill of %s" % nme)
        out.append((nme, bool(re.search(r"self\.%s\.flags\.writeable = False" % nme, m.group(1)))))
    if not out:
        die("c13: no cached arrays found in trees.py")
    return out


def facts(read, die, define):
    out = []
    ch = read("c/tskit/core.h")
    for e in ERRS:
        out.append("Definition c13_%s : Z := %d." % (e.lower(), define(ch, e, "core.h")))
    m = re.search(r"typedef\s+int32_t\s+tsk_id_t;\s*#define\s+TSK_MAX_ID\s+INT32_MAX\s*-\s*1\b", ch)
    if not m:
        die("c13: TSK_MAX_ID is not INT32_MAX - 1 for the 32 bit tsk_id_t")
    out.append("Definition c13_tsk_max_id : Z := %d." % (2 ** 31 - 1 - 1))
    m = re.search(r"#define\s+TSK_UNKNOWN_TIME_HEX\s+0x([0-9A-Fa-f]{16})ULL", ch)
    if not m:
        die("c13: TSK_UNKNOWN_TIME_HEX")
    out.append("Definition c13_tsk_unknown_time_bits : Z := %d." % int(m.group(1), 16))
    tc = read("c/tskit/tables.c")
    lw = read("python/lwt_interface/tskit_lwt_interface.h")
    for t, cols in RAGGED.items():
        # order of the check_offsets calls in append_columns
        b = body_of(tc, "tsk_%s_table_append_columns" % t, die)
        seen = re.findall(r"check_offsets\(\s*num_rows,\s*(\w+)_offset,\s*0,\s*false\)", b)
        if sorted(seen) != sorted(cols) or len(set(seen)) != len(seen):
            die("c13: %s append_columns checks offsets of %r, expected %r" % (t, seen, cols))
        out.append("Definition c13_order_%s : list nat := [%s]." % (t, "; ".join("%d%%nat" % cols.index(c) for c in seen)))
        # add_row: tsk_bug_assert(self->X_offset[self->num_rows] == ...)
        b = body_of(tc, "tsk_%s_table_add_row" % t, die)
        n_assert = len(re.findall(r"tsk_bug_assert\(\s*self->\w+_offset\[self->num_rows\]\s*==", b))
        if n_assert not in (0, len(cols)):
            die("c13: %s add_row asserts %d of %d offsets" % (t, n_assert, len(cols)))
        out.append("Definition c13_addrow_assert_%s : bool := %s." % (t, "true" if n_assert else "false"))
        # parse_<t>_table_dict: flag of the metadata_offset read
        if "metadata" in cols:
            b = body_of(lw, "parse_%s_table_dict" % t, die)
            m = re.search(r"table_read_offset_array\(\s*metadata_offset_input,\s*&num_rows,\s*metadata_length,\s*(true|false)\)", b)
            if not m:
                die("c13: cannot find the metadata_offset read of parse_%s_table_dict" % t)
            first = re.search(r"table_read_(?:column|offset)_array\(\s*(\w+)_input", b)
            if not first:
                die("c13: no array read in parse_%s_table_dict" % t)
            # the first array read legitimately *defines* num_rows
            is_first = first.group(1) == "metadata_offset" or (first.group(1) == "metadata" and len(cols) == 1 and t == "population")
            checked = m.group(1) == "true" or is_first
            out.append("Definition c13_md_offset_length_checked_%s : bool := %s." % (t, "true" if checked else "false"))
    # F14: does every tsk_<t>_table_append_columns check all offset arrays before the first
    # change (the call of expand_main_columns), and does the binding check them while parsing?
    firsts = []
    for t in RAGGED:
        b = body_of(tc, "tsk_%s_table_append_columns" % t, die)
        pos = [m.start() for m in re.finditer(r"check_offsets\(\s*num_rows,", b)]
        m = re.search(r"tsk_%s_table_expand_main_columns\(self," % t, b)
        if not m or not pos:
            die("c13: %s append_columns: no expand_main_columns / check_offsets" % t)
        firsts.append(all(p_ < m.start() for p_ in pos))
    if any(firsts) and not all(firsts):
        die("c13: only some append_columns check their offsets before changing the table: %r" % firsts)
    out.append("Definition c13_append_offsets_checked_first : bool := %s." % ("true" if all(firsts) else "false"))
    b = body_of(lw, "table_read_offset_array", die)
    out.append("Definition c13_binding_checks_offsets : bool := %s."
               % ("true" if "TSK_ERR_BAD_OFFSET" in b else "false"))
    # the accessor layer: which getter hands out a view of which object's memory / a copy
    rows, readonly = accessor_table(read, die)
    out.append("Inductive c13_handout := C13_ReadOnlyView | C13_Copy | C13_WriteableView.")
    view = "C13_ReadOnlyView" if readonly else "C13_WriteableView"
    out.append("Definition c13_accessors : list (string * c13_handout) := [%s]."
               % "; ".join('("%s"%%string, %s)' % (n, view if k == "view" else "C13_Copy") for n, k in rows))
    out.append("Definition c13_cached_arrays : list (string * c13_handout) := [%s]."
               % "; ".join('("TreeSequence.%s"%%string, %s)' % (n, "C13_ReadOnlyView" if ro else "C13_WriteableView")
                           for n, ro in cached_arrays(read, die)))
    # BaseTable.__getitem__ (slice | mask | ids): is the copy of metadata_schema guarded for
    # tables without that attribute (ProvenanceTable)?
    py = read("python/tskit/tables.py")
    m = re.search(r"def __getitem__\(self, index\):.*?\n    def __setitem__", py, re.S)
    if not m:
        die("c13: cannot find BaseTable.__getitem__")
    g = m.group(0)
    if not re.search(r"ret\.metadata_schema = self\.metadata_schema", g):
        die("c13: BaseTable.__getitem__ no longer copies metadata_schema")
    guarded = bool(re.search(r'if hasattr\(self, "metadata_schema"\):[^\n]*\n\s+ret\.metadata_schema = self\.metadata_schema', g)
                   or re.search(r"try:\s*\n\s+ret\.metadata_schema = self\.metadata_schema\s*\n\s+except AttributeError", g))
    out.append("Definition c13_getitem_schema_guarded : bool := %s." % ("true" if guarded else "false"))
    return out
