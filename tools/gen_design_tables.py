#!/usr/bin/env python3
"""Regenerate the machine-derived tables of DESIGN.md (between <!-- BEGIN x --> / <!-- END x -->)."""
import glob, json, os, re, sys
HERE = os.path.dirname(os.path.dirname(os.path.abspath(__file__)))
sys.path.insert(0, HERE)
from harness import common

def props_table():
    rows = ["| property | theorems in Props | proof statements in cone | .v files in cone | families | known findings | fixed |", "|---|---|---|---|---|---|---|"]
    kf = json.load(open(os.path.join(HERE, "KNOWN_FINDINGS.json")))
    for i in range(1, 21):
        p = "C%02d" % i
        pv = os.path.join(common.THEORIES, "Props", p + ".v")
        if not os.path.exists(pv):
            rows.append("| %s | - | - | - | - | - | - |" % p); continue
        txt = common.strip_coq_comments(open(pv).read())
        th = re.findall(r"^\s*Theorem\s+([A-Za-z_][\w']*)", txt, re.M)
        cone = common.cone("%s.Props.%s" % (common.NS, p))
        names, qed = common.count_obligations(cone)
        hp = os.path.join(HERE, "harness", "props", p.lower() + ".py")
        fams = re.findall(r'^\s+name\s*=\s*"([^"]+)"', open(hp).read(), re.M) if os.path.exists(hp) else []
        known = [f for f in kf["findings"] if f["property"] == p]
        fixed = [l for l in kf["fixed"] if "property=%s " % p in l]
        rows.append("| %s | %d | %d | %d | %s | %d | %d |" % (p, len(th), len(names), len(cone), ", ".join(fams), len(known), len(fixed)))
    return "\n".join(rows)

def seeds_table():
    rows = ["| seed | what the change does (independent author) | needs to manifest | check result | caught by |", "|---|---|---|---|---|"]
    for d in sorted(glob.glob(os.path.join(HERE, "seeded", "*"))):
        mp, rp = os.path.join(d, "meta.json"), os.path.join(d, "result.json")
        if not os.path.exists(mp): continue
        m = json.load(open(mp)); r = json.load(open(rp)) if os.path.exists(rp) else {}
        def cut(s, n): 
            s = " ".join(str(s).split()).replace("|", "/"); return s[:n] + ("…" if len(s) > n else "")
        res = "not run"
        by = ""
        if r:
            res = "caught" if r.get("caught") else "MISSED"
            if not r.get("caught") and str(r.get("demo_changed_rc")) == "0":
                res = "obsolete at HEAD (a later fix: commit made the change harmless: its demo passes)"
            if r.get("caught") and not r.get("caught_with_failing_input", True): res += " (no-failing-input-found)"
            for p, c in r.get("checks", {}).items():
                fr = c.get("first_replay") or {}
                keys = []
                for f in (fr.get("failures") or [])[:2]:
                    keys.append(str(f[0]))
                by += "%s: %s%s; " % (p, fr.get("kind", "") or "", (" " + ",".join(keys)) if keys else "")
            if r.get("note"): by += cut(r["note"], 80)
        rows.append("| %s | %s | %s | %s | %s |" % (os.path.basename(d), cut(m.get("summary", ""), 220), cut(m.get("needs_to_manifest", m.get("what_it_needs_to_manifest", "")), 160), res, cut(by, 160)))
    return "\n".join(rows)

def findings_table():
    kf = json.load(open(os.path.join(HERE, "KNOWN_FINDINGS.json")))
    rows = ["| id | property | status | oracle key (regex) | what fails |", "|---|---|---|---|---|"]
    for f in kf["findings"]:
        rows.append("| %s | %s | known | `%s` | %s |" % (f["id"], f["property"], f["key"].replace("|", "\\|"), " ".join(f["what"].split()).replace("|", "/")[:400]))
    out = "\n".join(rows) + "\n\nRepaired (one `fix:` commit each in /repo; these entries suppress nothing):\n\n"
    out += "\n".join("* `%s`" % l for l in kf["fixed"])
    return out

def claims_block():
    claims = json.load(open(os.path.join(HERE, "tools", "claims.json")))
    titles = {}
    for l in open(os.path.join(HERE, "properties.jsonl")):
        d = json.loads(l); titles[d["id"]] = d["title"]
    out = []
    for pid in sorted(claims):
        c = claims[pid]
        out.append("### %s — %s" % (pid, titles.get(pid, "")))
        if c.get("claimed"):
            out.append("*Decided by:* %s." % c["technique"])
            out.append("")
            out.append("*What is proved / how it is tied:* %s" % c["text"])
            out.append("")
            out.append("*Assumed / trusted / not proved:* %s." % c["note"].rstrip("."))
            out.append("")
            out.append("Details (modelled functions with line ranges, theorem table with full/partial/bounded/refuted status, families, oracle keys, findings with repro, self-tests, timings): `notes/%s.md`." % pid)
        else:
            out.append("Not claimed: %s" % c["reason"])
        out.append("")
    return "\n".join(out)

def main():
    p = os.path.join(HERE, "DESIGN.md")
    s = open(p).read()
    for tag, fn in (("PROPS", props_table), ("SEEDS", seeds_table), ("FINDINGS", findings_table), ("CLAIMS", claims_block)):
        b, e = "<!-- BEGIN %s -->" % tag, "<!-- END %s -->" % tag
        if b in s and e in s:
            s = s[:s.index(b) + len(b)] + "\n" + fn() + "\n" + s[s.index(e):]
    open(p, "w").write(s)

if __name__ == "__main__":
    main()
