#!/usr/bin/env python3
"""tools/seed_test.py <seed-dir> [Cnn ...]
Confirm a seeded change and run our checks against it, in isolation:
  * scratch git worktree of /repo (removed afterwards); demo.py must exit 0 on the clean
    tree and non-zero once patch.diff is applied and _tskit rebuilt;
  * ./check <Cnn> quick is run from a private copy of /verif (so that Gen/Generated.v,
    the .vo files and the scratch build directory are not shared with concurrent runs)
    with VERIF_REPO pointing at the patched worktree — equivalent to
    `git -C /repo apply patch.diff; ./check ...; git -C /repo checkout -- .`.
Outcome is recorded in <seed-dir>/result.json."""
import json, os, subprocess, sys, time, shutil
HERE = os.path.dirname(os.path.dirname(os.path.abspath(__file__)))
sd = os.path.abspath(sys.argv[1])
meta = json.load(open(os.path.join(sd, "meta.json")))
props = sys.argv[2:] or [meta["property"]]
tag = os.path.basename(sd)
wt = "/tmp/seedtest-" + tag
priv = "/var/tmp/seedrun-" + tag
subprocess.run(["git", "-C", "/repo", "worktree", "remove", "--force", wt], stderr=subprocess.DEVNULL)
shutil.rmtree(wt, ignore_errors=True)
shutil.rmtree(priv, ignore_errors=True)
for _ in range(20):
    r = subprocess.run(["git", "-C", "/repo", "worktree", "add", "--detach", wt, "HEAD"], stdout=subprocess.DEVNULL, stderr=subprocess.PIPE, text=True)
    if r.returncode == 0:
        break
    time.sleep(3)
else:
    sys.exit("worktree add failed: " + r.stderr)
res = {"property": meta["property"], "time": time.strftime("%Y-%m-%d %H:%M"), "repo_head": subprocess.run(["git", "-C", "/repo", "rev-parse", "--short", "HEAD"], stdout=subprocess.PIPE, text=True).stdout.strip()}
try:
    def build():
        r = subprocess.run("cd %s/python && /venv/bin/python setup.py build_ext --inplace -j4 >/dev/null 2>&1" % wt, shell=True)
        return r.returncode
    demo = os.path.join(sd, "demo.py")
    skip_demo = os.environ.get("SEED_SKIP_DEMO") == "1" or not os.path.exists(demo)
    if not skip_demo:
        build()
        r0 = subprocess.run(["/venv/bin/python", demo], cwd=wt + "/python", stdout=subprocess.PIPE, stderr=subprocess.STDOUT, text=True, timeout=3600)
        res["demo_clean_rc"] = r0.returncode
    r = subprocess.run(["git", "apply", os.path.join(sd, "patch.diff")], cwd=wt, stderr=subprocess.PIPE, text=True)
    res["patch_applies"] = r.returncode == 0
    if r.returncode != 0:
        res["patch_error"] = r.stderr[-500:]
        raise SystemExit("patch does not apply")
    if not skip_demo:
        res["build_rc"] = build()
        r1 = subprocess.run(["/venv/bin/python", demo], cwd=wt + "/python", stdout=subprocess.PIPE, stderr=subprocess.STDOUT, text=True, timeout=3600)
        res["demo_changed_rc"] = r1.returncode
        res["demo_changed_tail"] = r1.stdout[-600:]
    subprocess.run("cd %s/python && rm -rf build *.so" % wt, shell=True)
    # private copy of /verif (sources + compiled .vo so that nothing is rebuilt needlessly)
    os.makedirs(priv + "/verif", exist_ok=True)
    subprocess.run(["rsync", "-a", "--exclude", ".git", "--exclude", "replays", "--exclude", "seeded", HERE + "/", priv + "/verif/"], check=True)
    res["checks"] = {}
    for p in props:
        env = dict(os.environ, VERIF_REPO=wt, VERIF_SCRATCH=priv + "/scratch")
        t0 = time.time()
        r = subprocess.run(["./check", p, os.environ.get("SEED_TIER", "quick")], cwd=priv + "/verif", env=env, stdout=subprocess.PIPE, stderr=subprocess.STDOUT, text=True)
        lines = [l[:300] for l in r.stdout.split("\n") if l.startswith(("VIOLATION", "OK ", "KNOWN-FINDING", "check:"))]
        viol = [l for l in lines if l.startswith("VIOLATION")]
        replay = None
        if viol:
            rp = viol[0].split("replay=")[1].split()[0]
            try:
                replay = json.load(open(os.path.join(priv, "verif", rp)))
                replay = json.loads(json.dumps(replay)[:4000]) if len(json.dumps(replay)) < 4000 else {"truncated": json.dumps(replay)[:1500]}
            except Exception as e:
                replay = {"unreadable": str(e)}
        lines = viol + [l for l in lines if not l.startswith("VIOLATION")]
        res["checks"][p] = {"rc": r.returncode, "lines": lines[:8], "wall_s": round(time.time() - t0), "first_replay": replay}
        print(p, "rc=%d" % r.returncode, [l[:160] for l in viol[:3]] or lines[:2])
    res["caught"] = any(c["rc"] == 1 and any(l.startswith("VIOLATION") for l in c["lines"]) for c in res["checks"].values())
    res["caught_with_failing_input"] = any(any(l.startswith("VIOLATION") and "no-failing-input-found" not in l for l in c["lines"]) for c in res["checks"].values())
finally:
    subprocess.run(["git", "-C", "/repo", "worktree", "remove", "--force", wt], stderr=subprocess.DEVNULL)
    shutil.rmtree(wt, ignore_errors=True)
    shutil.rmtree(priv, ignore_errors=True)
    json.dump(res, open(os.path.join(sd, "result.json"), "w"), indent=1)
print("caught" if res.get("caught") else ("OBSOLETE-demo-passes" if str(res.get("demo_changed_rc")) == "0" else "MISSED"), sd)
