#!/usr/bin/env python3
"""tools/seed_test.py <seed-dir> [Cnn ...]
Apply seeded/<id>/patch.diff to a scratch worktree of /repo, confirm the demo (exit 0 on the
clean tree, non-zero with the change), run ./check for the property (and any extra properties
given) against that tree with VERIF_REPO, and record the outcome in <seed-dir>/result.json.
The worktree is removed afterwards.  (Equivalent to `git -C /repo apply`; a worktree is used so
that /repo itself is never dirty while other checks run.)"""
import json, os, subprocess, sys, time, shutil
HERE = os.path.dirname(os.path.dirname(os.path.abspath(__file__)))
sd = os.path.abspath(sys.argv[1])
meta = json.load(open(os.path.join(sd, "meta.json")))
props = sys.argv[2:] or [meta["property"]]
wt = "/tmp/seedtest-" + os.path.basename(sd)
subprocess.run(["git", "-C", "/repo", "worktree", "remove", "--force", wt], stderr=subprocess.DEVNULL)
subprocess.run(["git", "-C", "/repo", "worktree", "add", "--detach", wt, "HEAD"], check=True, stdout=subprocess.DEVNULL)
res = {"property": meta["property"], "time": time.strftime("%Y-%m-%d %H:%M")}
try:
    def build():
        r = subprocess.run("cd %s/python && /venv/bin/python setup.py build_ext --inplace -j8 >/dev/null 2>&1" % wt, shell=True)
        return r.returncode
    demo = os.path.join(sd, "demo.py")
    if os.path.exists(demo) and os.environ.get("SEED_SKIP_DEMO") != "1":
        build()
        r0 = subprocess.run(["/venv/bin/python", demo], cwd=wt + "/python", stdout=subprocess.PIPE, stderr=subprocess.STDOUT, text=True, timeout=1800)
        res["demo_clean_rc"] = r0.returncode
    subprocess.run(["git", "apply", os.path.join(sd, "patch.diff")], cwd=wt, check=True)
    if os.path.exists(demo) and os.environ.get("SEED_SKIP_DEMO") != "1":
        res["build_rc"] = build()
        r1 = subprocess.run(["/venv/bin/python", demo], cwd=wt + "/python", stdout=subprocess.PIPE, stderr=subprocess.STDOUT, text=True, timeout=1800)
        res["demo_changed_rc"] = r1.returncode
        res["demo_changed_tail"] = r1.stdout[-600:]
    # remove in-place build products so that the check's staging copies sources only
    subprocess.run("cd %s/python && rm -rf build *.so" % wt, shell=True)
    res["checks"] = {}
    for p in props:
        env = dict(os.environ, VERIF_REPO=wt)
        t0 = time.time()
        r = subprocess.run(["./check", p, os.environ.get("SEED_TIER", "quick")], cwd=HERE, env=env, stdout=subprocess.PIPE, stderr=subprocess.STDOUT, text=True)
        lines = [l for l in r.stdout.split("\n") if l.startswith(("VIOLATION", "OK ", "KNOWN-FINDING", "check:"))]
        res["checks"][p] = {"rc": r.returncode, "lines": lines[:6], "wall_s": round(time.time() - t0)}
        print(p, "rc=%d" % r.returncode, lines[:3])
    res["caught"] = any(c["rc"] == 1 for c in res["checks"].values())
finally:
    subprocess.run(["git", "-C", "/repo", "worktree", "remove", "--force", wt])
    shutil.rmtree(wt, ignore_errors=True)
json.dump(res, open(os.path.join(sd, "result.json"), "w"), indent=1)
print("caught" if res.get("caught") else "MISSED", sd)
