#!/bin/bash
# tools/run_all.sh [tier] [jobs] : run every claimed check, summarise
tier=${1:-quick}; jobs=${2:-4}
cd "$(dirname "$0")/.."
mkdir -p /var/tmp/tskit-verif/logs
python3 -c "import json;[print(c['property_id']) for c in json.load(open('MANIFEST.json'))['checks']]" |
  xargs -P "$jobs" -I{} sh -c "./check {} $tier > /var/tmp/tskit-verif/logs/{}.$tier.log 2>&1; echo {} rc=\$? \$(grep -c '^VIOLATION' /var/tmp/tskit-verif/logs/{}.$tier.log) violations \$(grep -c '^KNOWN-FINDING' /var/tmp/tskit-verif/logs/{}.$tier.log) known"
