#!/bin/bash
# tools/try_repo.sh <repo-dir> <Cnn> [tier]: run a check against another tree from a private copy of /verif
repo=$1; prop=$2; tier=${3:-quick}
priv=/var/tmp/tryrun-$prop-$$
mkdir -p $priv/verif && rsync -a --exclude .git --exclude replays --exclude seeded /verif/ $priv/verif/
cd $priv/verif && VERIF_REPO=$repo VERIF_SCRATCH=$priv/scratch ./check $prop $tier 2>&1 | grep -v "^\[build\]" | cut -c1-400 | tail -${TRY_TAIL:-12}
for f in $priv/verif/replays/*.json; do [ -f "$f" ] && { echo "--- $f"; head -c ${TRY_REPLAY_BYTES:-1500} "$f"; echo; }; done 2>/dev/null | head -${TRY_REPLAY_LINES:-60}
rm -rf $priv
