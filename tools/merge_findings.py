#!/usr/bin/env python3
"""Merge findings/<Cnn>.json staging files into the single committed KNOWN_FINDINGS.json."""
import glob, json, os
HERE = os.path.dirname(os.path.dirname(os.path.abspath(__file__)))
kf = json.load(open(os.path.join(HERE, "KNOWN_FINDINGS.json")))
have = {f["id"] for f in kf["findings"]}
for p in sorted(glob.glob(os.path.join(HERE, "findings", "*.json"))):
    for f in json.load(open(p)).get("findings", []):
        if f["id"] not in have:
            kf["findings"].append(f)
            have.add(f["id"])
    for line in json.load(open(p)).get("fixed", []):
        if line not in kf["fixed"]:
            kf["fixed"].append(line)
json.dump(kf, open(os.path.join(HERE, "KNOWN_FINDINGS.json"), "w"), indent=1)
print(len(kf["findings"]), "findings;", len(kf["fixed"]), "fixed")
