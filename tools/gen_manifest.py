#!/usr/bin/env python3
"""Regenerate MANIFEST.json from tools/claims.json (one entry per property:
claimed true/false, text, note, technique, reason when not claimed)."""
import json, os
HERE = os.path.dirname(os.path.dirname(os.path.abspath(__file__)))
claims = json.load(open(os.path.join(HERE, "tools", "claims.json")))
checks, na = [], []
for pid in sorted(claims):
    c = claims[pid]
    if not c.get("claimed"):
        na.append({"property_id": pid, "reason": c["reason"]})
        continue
    checks.append({
        "property_id": pid,
        "quick_cmd": "./check %s quick" % pid,
        "thorough_cmd": "./check %s thorough" % pid,
        "evidence_file": "evidence/%s.json" % pid,
        "replay_cmd_template": "./check %s --replay {path}" % pid,
        "engine": "coq-proof+correspondence",
        "technique": c["technique"],
        "level_claimed": {"category": "proof", "text": c["text"], "design_ref": "DESIGN.md section 4 %s; notes/%s.md" % (pid, pid)},
        "level_note": c["note"],
    })
m = {
 "version": 1,
 "setup_cmd": "./check setup",
 "hooks": {
  "guard": "TSKIT_VERIF_HOOKS",
  "enable": "no source hooks are needed: every check stages /repo/python and /repo/c into /var/tmp/tskit-verif/<flavour>-<content hash> and builds _tskit there (ASan/UBSan flavour for C09); the guard variable is reserved and unused",
  "baseline_off_cmd": "cd /repo && /venv/bin/python -m pytest -ra -q -p no:cacheprovider --timeout=900 --continue-on-collection-errors",
  "source_commits": [],
  "add_only": True
 },
 "engines": [
  {"name": "coq-proof+correspondence", "path": "check", "serves_properties": [c["property_id"] for c in checks],
   "kind_free_text": "Coq 8.16.1 theorems (coq/theories/Props/<Cnn>.v, closed under the global context) about hand-written executable Gallina models of the anchored code; the models are tied to /repo on every run by evaluating the proved definitions with vm_compute on the cases the freshly built implementation ran (harness/runner.py) and by facts regenerated from the sources (translator/); independent property oracles drive the failing-input search"}
 ],
 "checks": checks,
 "not_applicable": na,
 "notes": "See DESIGN.md (approach, trusted base, findings) and notes/<Cnn>.md (per property: what is modelled, proved, only differential, not covered). KNOWN_FINDINGS.json lists genuine defects recorded or fixed."
}
json.dump(m, open(os.path.join(HERE, "MANIFEST.json"), "w"), indent=1)
print(len(checks), "checks;", len(na), "not claimed")
